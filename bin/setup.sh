#!/bin/sh
# Build the verifier from vendored sources only (offline).  The binary is replaced atomically.
set -e
cd "$(dirname "$0")/.."
export GOFLAGS=-mod=vendor GOPROXY=off GOSUMDB=off GOTOOLCHAIN=local CGO_ENABLED=0
(cd govc && go build -o ../bin/govc.new . && mv ../bin/govc.new ../bin/govc)
echo "setup ok"
