package main

// Trusted model of reflect.Type descriptors (used by message.(*ReadWriter).Initialize and its specification).
//
// A reflect.Type is an opaque 64-bit handle; everything reflect says about it is an uninterpreted function of the
// handle (and of a field index), so that code and specification read the SAME facts:
//   rt_numfield(t), rt_kind(t), rt_len(t), rt_elem(t), rt_fieldtype(t,i)            (numbers / handles)
//   rt_name(t), rt_fname(t,i), rt_ftag(t,i), tag_get_<key>(tag)                     (string identities)
// A string obtained from the model has length str_len(id) and bytes str_byte(id,k): two strings with the same
// identity are the same string.  Nothing relates Kind and Name of a type (a named type has any name).
// Preconditions of reflect (Field index in range, Len/Elem on arrays/pointers) are checked as safety obligations
// where the model knows them.

import (
	"go/types"

	"golang.org/x/tools/go/ssa"
)

const rtypeName = "opaque:reflect.rtype"

func rtypeV(h *Term, static types.Type) *IfaceV {
	return &IfaceV{Type: Const(32, uint64(namedTypeID(rtypeName))), Handle: h, Static: static, alts: map[int]Value{}}
}

// absString: the string with identity id.
func (s *State) absString(id *Term) *StringV {
	// 0 <= len < 2^31 by construction (no assumption: the identity may mention a quantified variable)
	l := ZExt(64, App("str_len", BV(31), id))
	return &StringV{ID: id, Len: l, Arr: &ArrFn{Base: &ArrZero{W: 8}, Lo: Const(64, 0), N: l, F: func(rel *Term) *Term { return App("str_byte", BV(8), id, rel) }}}
}

func (s *State) reflectNamed(name string) types.Type {
	for _, p := range s.eng.prog.AllPackages() {
		if p.Pkg.Path() == "reflect" {
			if o := p.Pkg.Scope().Lookup(name); o != nil {
				return o.Type()
			}
		}
	}
	unsup("package reflect not loaded (type %s)", name)
	return nil
}

// 0 <= NumField < 2^20 by construction
func rtNumField(h *Term) *Term { return ZExt(64, App("rt_numfield", BV(20), h)) }

func isRtModelHandle(h *Term) bool {
	return h.Op == "app" && (h.Name == "rt_fieldtype" || h.Name == "rt_elem")
}

func registerRTypeModels() {
	invokeTable["reflect.Type.NumField"] = func(s *State, recv *IfaceV, args []Value, where string) []Value {
		return []Value{rtNumField(recv.Handle)}
	}
	invokeTable["reflect.Type.Kind"] = func(s *State, recv *IfaceV, args []Value, where string) []Value {
		return []Value{App("rt_kind", BV(64), recv.Handle)}
	}
	invokeTable["reflect.Type.Len"] = func(s *State, recv *IfaceV, args []Value, where string) []Value {
		if s.pure == 0 {
			s.check("pre:reflect.Type.Len:array@"+where, Eq(App("rt_kind", BV(64), recv.Handle), Const(64, 17)))
		}
		return []Value{ZExt(64, App("rt_len", BV(32), recv.Handle))}
	}
	invokeTable["reflect.Type.Name"] = func(s *State, recv *IfaceV, args []Value, where string) []Value {
		return []Value{s.absString(App("rt_name", BV(64), recv.Handle))}
	}
	invokeTable["reflect.Type.Elem"] = func(s *State, recv *IfaceV, args []Value, where string) []Value {
		if isRtModelHandle(recv.Handle) {
			return []Value{rtypeV(App("rt_elem", BV(64), recv.Handle), recv.Static)}
		}
		// TypeOf(m).Elem(): the struct type behind the pointer; kept as the same handle (the dynamic type id of m)
		return []Value{recv}
	}
	invokeTable["reflect.Type.Field"] = func(s *State, recv *IfaceV, args []Value, where string) []Value {
		i := asTerm(args[0])
		if s.pure == 0 {
			n := rtNumField(recv.Handle)
			s.check("pre:reflect.Type.Field:index@"+where, And(CmpBV("bvsle", Const(64, 0), i), CmpBV("bvslt", i, n)))
		}
		sft := s.reflectNamed("StructField")
		st := sft.Underlying().(*types.Struct)
		sv := s.zeroValue(sft).(*StructV)
		out := &StructV{Type: sv.Type, Fields: append([]Value{}, sv.Fields...)}
		for k := 0; k < st.NumFields(); k++ {
			switch st.Field(k).Name() {
			case "Name":
				out.Fields[k] = s.absString(App("rt_fname", BV(64), recv.Handle, i))
			case "Type":
				out.Fields[k] = rtypeV(App("rt_fieldtype", BV(64), recv.Handle, i), st.Field(k).Type())
			case "Tag":
				out.Fields[k] = s.absString(App("rt_ftag", BV(64), recv.Handle, i))
			}
		}
		return []Value{out}
	}
	libTable["(reflect.StructTag).Get"] = func(s *State, fn *ssa.Function, args []Value, where string) []Value {
		tag := args[0].(*StringV)
		key := args[1].(*StringV)
		if tag.ID == nil || key.Lit == nil {
			unsup("StructTag.Get on a tag that does not come from the reflect model, or with a non-literal key")
		}
		return []Value{s.absString(App("tag_get_"+sanitize(*key.Lit), BV(64), tag.ID))}
	}
	libTable["strings.HasPrefix"] = func(s *State, fn *ssa.Function, args []Value, where string) []Value {
		x, pre := args[0].(*StringV), args[1].(*StringV)
		if pre.Lit == nil {
			unsup("strings.HasPrefix with a non-literal prefix")
		}
		if x.Lit != nil {
			return []Value{BoolConst(len(*x.Lit) >= len(*pre.Lit) && (*x.Lit)[:len(*pre.Lit)] == *pre.Lit)}
		}
		cs := []*Term{CmpBV("bvsle", Const(64, uint64(len(*pre.Lit))), x.Len)}
		for i := 0; i < len(*pre.Lit); i++ {
			cs = append(cs, Eq(x.Arr.Select(Const(64, uint64(i))), Const(8, uint64((*pre.Lit)[i]))))
		}
		return []Value{And(cs...)}
	}
	// sort.Slice(x, less): the elements of x are permuted; the model forgets them (arbitrary afterwards), the closure
	// is not run.  Nothing is claimed about the resulting order by proofs that go through this model.
	libTable["sort.Slice"] = func(s *State, fn *ssa.Function, args []Value, where string) []Value {
		iv, ok := args[0].(*IfaceV)
		if !ok || !iv.Type.IsConst() {
			unsup("sort.Slice of %T", args[0])
		}
		sl, ok := iv.alts[int(iv.Type.Val)].(*SliceV)
		if !ok {
			unsup("sort.Slice of a non-slice")
		}
		if o := sl.object(); o != nil {
			s.havocRegion(&Region{Obj: o, Off: sl.Off, Len: sl.Len}, "sort.Slice")
		}
		return nil
	}
	ghostTable["ufAtoi"] = func(s *State, fn *ssa.Function, args []Value, where string) []Value {
		x := args[0].(*StringV)
		if x.Lit != nil || x.ID == nil {
			unsup("ufAtoi of a string without identity")
		}
		return []Value{App("atoi_val", BV(64), x.ID)}
	}
	ghostTable["sumInt"] = func(s *State, fn *ssa.Function, args []Value, where string) []Value {
		return []Value{s.sumInt(asTerm(args[0]), args[1].(*ClosureV))}
	}
}

// sumInt(n, f): uninterpreted in (n, code of f, captured scalars of f) with the defining equation at n.
func (s *State) sumInt(n *Term, cv *ClosureV) *Term {
	name := "sum_" + sanitize(cv.Fn.String())
	var caps []*Term
	var addCap func(b Value, depth int)
	addCap = func(b Value, depth int) {
		switch x := b.(type) {
		case *Term:
			caps = append(caps, x)
		case *IfaceV:
			caps = append(caps, x.Type, x.Handle)
		case *PtrV:
			// a captured variable is a cell: the sum depends on its VALUE
			if depth == 0 && x.object() != nil {
				addCap(s.load(x, "sumInt"), 1)
				return
			}
			caps = append(caps, s.ptrID(x))
		default:
			unsup("sumInt: captured value %T", b)
		}
	}
	for _, b := range cv.Bindings {
		addCap(b, 0)
	}
	at := func(k *Term) *Term { return App(name, BV(64), append([]*Term{k}, caps...)...) }
	S := at(n)
	key := S.String()
	if s.sumDone == nil {
		s.sumDone = map[string]bool{}
	}
	if !s.sumDone[key] {
		s.sumDone[key] = true
		pos := CmpBV("bvslt", Const(64, 0), n)
		prev := Sub(n, Const(64, 1))
		fv := asTerm(s.evalPure(cv.Fn, []Value{prev}, cv.Bindings)[0])
		s.assume(Implies(Not(pos), Eq(S, Const(64, 0))))
		s.assume(Implies(pos, Eq(S, Add(at(prev), fv))))
	}
	return S
}
