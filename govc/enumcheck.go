package main

// C19: the generated enum text methods.  For every non-alias enum type found by shape in the dialect packages,
// a ghost client (lemma) calling the REAL MarshalText and UnmarshalText is generated into the verification overlay
// and verified like any other function: plain enums for every 64-bit value, bitmask enums for every OR-combination
// of the defined entries (one Boolean per entry).

import (
	"fmt"
	"go/ast"
	"go/parser"
	"go/token"
	"os"
	"path/filepath"
	"sort"
	"strings"
)

type enumInfo struct {
	Pkg     string // rel dir
	Name    string
	Bitmask bool
	Consts  []string
	File    string
}

func discoverEnums(repo, rel string) ([]enumInfo, error) {
	dir := filepath.Join(repo, rel)
	ents, err := os.ReadDir(dir)
	if err != nil {
		return nil, err
	}
	var out []enumInfo
	fset := token.NewFileSet()
	for _, e := range ents {
		n := e.Name()
		if !strings.HasPrefix(n, "enum_") || !strings.HasSuffix(n, ".go") || strings.HasSuffix(n, "_test.go") {
			continue
		}
		f, err := parser.ParseFile(fset, filepath.Join(dir, n), nil, parser.SkipObjectResolution)
		if err != nil {
			return nil, err
		}
		var ei *enumInfo
		for _, d := range f.Decls {
			switch x := d.(type) {
			case *ast.GenDecl:
				for _, sp := range x.Specs {
					switch y := sp.(type) {
					case *ast.TypeSpec:
						if y.Assign.IsValid() {
							continue // alias: no code of its own
						}
						if id, ok := y.Type.(*ast.Ident); ok && id.Name == "uint64" {
							ei = &enumInfo{Pkg: rel, Name: y.Name.Name, File: n}
						}
					case *ast.ValueSpec:
						if x.Tok == token.CONST && ei != nil {
							if id, ok := y.Type.(*ast.Ident); ok && id.Name == ei.Name {
								for _, nm := range y.Names {
									ei.Consts = append(ei.Consts, nm.Name)
								}
							}
						}
					}
				}
			case *ast.FuncDecl:
				if ei != nil && x.Name.Name == "MarshalText" && x.Body != nil {
					ast.Inspect(x.Body, func(nd ast.Node) bool {
						if se, ok := nd.(*ast.SelectorExpr); ok {
							if id, ok := se.X.(*ast.Ident); ok && id.Name == "strings" && se.Sel.Name == "Join" {
								ei.Bitmask = true
							}
						}
						return true
					})
				}
			}
		}
		if ei != nil {
			// must have both methods
			hasM, hasU := false, false
			for _, d := range f.Decls {
				if fd, ok := d.(*ast.FuncDecl); ok && fd.Recv != nil {
					if fd.Name.Name == "MarshalText" {
						hasM = true
					}
					if fd.Name.Name == "UnmarshalText" {
						hasU = true
					}
				}
			}
			if hasM && hasU {
				out = append(out, *ei)
			}
		}
	}
	sort.Slice(out, func(i, j int) bool { return out[i].Name < out[j].Name })
	return out, nil
}

// enumOverlay: ghost clients and their contracts for one package.
func enumOverlay(enums []enumInfo) (spec string, contracts string) {
	var sp, ct strings.Builder
	for _, e := range enums {
		if !e.Bitmask {
			fmt.Fprintf(&sp, "func govcEnumRT_%s(e %s) (e2 %s, err error) {\n\tb, _ := e.MarshalText()\n\terr = (&e2).UnmarshalText(b)\n\treturn\n}\n\n", e.Name, e.Name, e.Name)
			fmt.Fprintf(&ct, "//@ lemma govcEnumRT_%s\n//@   ensures [text-round-trip] err == nil && e2 == e\n//@   modifies nothing\n", e.Name)
			continue
		}
		var ps, args []string
		for i := range e.Consts {
			ps = append(ps, fmt.Sprintf("b%d", i))
			args = append(args, fmt.Sprintf("b%d", i))
		}
		sig := ""
		if len(ps) > 0 {
			sig = ", " + strings.Join(ps, ", ") + " bool"
		}
		fmt.Fprintf(&sp, "func govcEnumOr_%s(%s) %s {\n\tvar r %s\n", e.Name, strings.TrimPrefix(sig, ", "), e.Name, e.Name)
		for i, c := range e.Consts {
			fmt.Fprintf(&sp, "\tif b%d {\n\t\tr |= %s\n\t}\n", i, c)
		}
		fmt.Fprintf(&sp, "\treturn r\n}\n\n")
		fmt.Fprintf(&sp, "func govcEnumRT_%s(e %s%s) (e2 %s, err error) {\n\tb, _ := e.MarshalText()\n\terr = (&e2).UnmarshalText(b)\n\treturn\n}\n\n", e.Name, e.Name, sig, e.Name)
		fmt.Fprintf(&ct, "//@ lemma govcEnumRT_%s\n//@   requires e == govcEnumOr_%s(%s)\n//@   ensures [text-round-trip] err == nil && e2 == e\n//@   modifies nothing\n", e.Name, e.Name, strings.Join(args, ", "))
	}
	return sp.String(), ct.String()
}

// runEnums verifies the generated round-trip lemma of every enum type of the configured packages.
func (c *checkCtx) runEnums(cov map[string]interface{}) int {
	if len(c.conf.Enums) == 0 {
		return 0
	}
	extras := map[string]pkgExtra{}
	var all []enumInfo
	for _, rel := range c.conf.Enums {
		es, err := discoverEnums(repoDir, rel)
		if err != nil {
			p := filepath.Join(c.outDir, "enum-discover-error.txt")
			os.WriteFile(p, []byte("obligation: bind:enums:"+rel+"\n"+err.Error()+"\n"), 0o644)
			c.violation("bind:enums:"+rel, p, false)
			continue
		}
		if len(es) == 0 {
			continue
		}
		sp, ct := enumOverlay(es)
		extras[rel] = pkgExtra{Spec: sp, Contracts: ct}
		all = append(all, es...)
	}
	var rels []string
	for rel := range extras {
		rels = append(rels, rel)
	}
	sort.Strings(rels)
	ld, err := load(repoDir, rels, filepath.Join(verifDir, "spec"), extras)
	if err != nil {
		p := filepath.Join(c.outDir, "enum-load-error.txt")
		os.WriteFile(p, []byte("obligation: bind:enums:load\n\n"+err.Error()+"\n"), 0o644)
		c.violation("bind:enums:load", p, false)
		return 1
	}
	var obls []*Obligation
	nPlain, nMask := 0, 0
	var unsup []string
	paths := 0
	for _, e := range all {
		sp := ld.eng.pkgs[relToImport(e.Pkg)]
		fn := sp.Func("govcEnumRT_" + e.Name)
		if fn == nil {
			unsup = append(unsup, e.Pkg+"."+e.Name+": lemma function missing")
			continue
		}
		fc := ld.eng.contracts[fn]
		if fc == nil {
			unsup = append(unsup, e.Pkg+"."+e.Name+": lemma contract missing")
			continue
		}
		if e.Bitmask {
			nMask++
		} else {
			nPlain++
		}
		rep := ld.eng.verifyFunc(fn, fc)
		paths += rep.Paths
		for _, o := range rep.Obligations {
			o.Name = filepath.Base(e.Pkg) + "." + o.Name
			o.Func = filepath.Base(e.Pkg) + "." + e.Name
		}
		obls = append(obls, rep.Obligations...)
		for _, u := range rep.Unsupported {
			unsup = append(unsup, e.Pkg+"."+e.Name+": "+u)
		}
	}
	timeout := 10
	if c.tier == "thorough" {
		timeout = 60
	}
	vs := discharge(obls, dischargeOpts{timeoutS: timeout, all: c.tier == "thorough", workers: (numCPU() + 1) / 2})
	sums := summarize(vs)
	nOb, nDis := 0, 0
	knownPrinted := map[string]bool{}
	var knownMatched, failed []string
	for _, ns := range sums {
		nOb++
		if len(ns.Failed) == 0 && len(ns.Unknown) == 0 {
			nDis++
			continue
		}
		// known findings are listed per enum type
		item := ns.Func
		if k := matchKnown(c.known, c.id, "", item); k != nil {
			nOb--
			msg := fmt.Sprintf("KNOWN-FINDING: property=%s %s [%s]", c.id, k.What, item)
			if !knownPrinted[msg] {
				knownPrinted[msg] = true
				fmt.Println(msg)
			}
			knownMatched = append(knownMatched, ns.Name)
			continue
		}
		failed = append(failed, ns.Name)
		c.reportFailure(ns)
	}
	for _, u := range unsup {
		p := filepath.Join(c.outDir, "enum-unsupported.txt")
		os.WriteFile(p, []byte("obligation: engine:unsupported\n"+strings.Join(unsup, "\n")+"\n"), 0o644)
		c.violation("engine:unsupported:"+firstField(u), p, false)
		nOb++
	}
	cov["obligations"] = asInt(cov["obligations"]) + nOb
	cov["discharged"] = asInt(cov["discharged"]) + nDis
	cov["enum_types"] = map[string]interface{}{"plain": nPlain, "bitmask": nMask, "packages": rels, "paths_explored": paths,
		"obligation_instances": len(obls), "distinct_queries": len(vs), "failed": failed, "known_findings_matched": knownMatched}
	if _, ok := cov["trusted_base"]; !ok {
		cov["trusted_base"] = []string{}
	}
	tb := cov["trusted_base"].([]string)
	for _, k := range sortedKeys(ld.eng.trustedUsed) {
		tb = append(tb, "trusted library/dependency model: "+k)
	}
	cov["trusted_base"] = tb
	if s, ok := cov["samples"].([]interface{}); !ok || len(s) == 0 {
		var samples []interface{}
		for _, ns := range sums {
			if len(samples) < 6 && len(ns.Failed) == 0 && ns.Kind == "post" {
				samples = append(samples, map[string]interface{}{"obligation": ns.Name, "path_instances": ns.Total, "discharged_by": ns.Solvers})
			}
		}
		cov["samples"] = samples
	}
	if len(failed) > 0 || len(unsup) > 0 {
		return 1
	}
	return 0
}
