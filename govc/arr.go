package main

// Go-side array values.  Array contents never reach the solver as store/copy
// chains: every read is pushed through updates here (read-over-write), so
// queries mention only array *variables* at index terms.

import "fmt"

type Arr interface {
	Select(i *Term) *Term
	ElemW() int
}

type ArrVar struct {
	Name string
	W    int
}

func (a *ArrVar) Select(i *Term) *Term { return SelectT(Var(a.Name, ArrSort(a.W)), i) }
func (a *ArrVar) ElemW() int           { return a.W }
func (a *ArrVar) Term() *Term          { return Var(a.Name, ArrSort(a.W)) }

type ArrZero struct{ W int }

func (a *ArrZero) Select(i *Term) *Term { return Const(a.W, 0) }
func (a *ArrZero) ElemW() int           { return a.W }

type ArrStore struct {
	Base Arr
	Idx  *Term
	Val  *Term
}

func (a *ArrStore) Select(i *Term) *Term {
	c := Eq(i, a.Idx)
	if c.IsTrue() {
		return a.Val
	}
	if c.IsFalse() {
		return a.Base.Select(i)
	}
	return Ite(c, a.Val, a.Base.Select(i))
}
func (a *ArrStore) ElemW() int { return a.Base.ElemW() }

// ArrCopy: Base with [DstOff, DstOff+N) replaced by Src[SrcOff ...).
type ArrCopy struct {
	Base   Arr
	DstOff *Term
	Src    Arr
	SrcOff *Term
	N      *Term
}

func inRange(i, lo, n *Term) *Term {
	// lo <= i < lo+n, signed 64-bit, no overflow assumed (indices < 2^62)
	return And(CmpBV("bvsle", lo, i), CmpBV("bvslt", i, Add(lo, n)))
}

func (a *ArrCopy) Select(i *Term) *Term {
	c := inRange(i, a.DstOff, a.N)
	if c.IsFalse() {
		return a.Base.Select(i)
	}
	v := a.Src.Select(Add(Sub(i, a.DstOff), a.SrcOff))
	if c.IsTrue() {
		return v
	}
	return Ite(c, v, a.Base.Select(i))
}
func (a *ArrCopy) ElemW() int { return a.Base.ElemW() }

// ArrFn: Base with [Lo, Lo+N) defined by F(relative index).
type ArrFn struct {
	Base Arr
	Lo   *Term
	N    *Term
	F    func(rel *Term) *Term
}

func (a *ArrFn) Select(i *Term) *Term {
	c := inRange(i, a.Lo, a.N)
	if c.IsFalse() {
		return a.Base.Select(i)
	}
	v := a.F(Sub(i, a.Lo))
	if c.IsTrue() {
		return v
	}
	return Ite(c, v, a.Base.Select(i))
}
func (a *ArrFn) ElemW() int { return a.Base.ElemW() }

// ArrBytes: constant contents (string and array literals).
type ArrBytes struct {
	B []byte
}

func (a *ArrBytes) Select(i *Term) *Term {
	if i.IsConst() {
		if i.Val < uint64(len(a.B)) {
			return Const(8, uint64(a.B[i.Val]))
		}
		return Const(8, 0)
	}
	var r *Term = Const(8, 0)
	for k := len(a.B) - 1; k >= 0; k-- {
		r = Ite(Eq(i, Const(64, uint64(k))), Const(8, uint64(a.B[k])), r)
	}
	return r
}
func (a *ArrBytes) ElemW() int { return 8 }

var freshCounter int

// canonArr peels copies whose destination window is exactly [off, off+n):
// reading n elements at off from such an array reads Src at SrcOff.
func canonArr(a Arr, off, n *Term) (Arr, *Term) {
	for {
		switch c := a.(type) {
		case *ArrCopy:
			if c.DstOff == off && c.N == n {
				a, off = c.Src, c.SrcOff
				continue
			}
		}
		return a, off
	}
}

func arrDesc(a Arr) string {
	switch c := a.(type) {
	case *ArrVar:
		return c.Name
	case *ArrZero:
		return "zero"
	case *ArrStore:
		return fmt.Sprintf("store(%s,%s,%s)", arrDesc(c.Base), c.Idx, c.Val)
	case *ArrCopy:
		return fmt.Sprintf("copy(%s,%s,%s,%s,%s)", arrDesc(c.Base), c.DstOff, arrDesc(c.Src), c.SrcOff, c.N)
	case *ArrFn:
		return fmt.Sprintf("fn(%s,%s,%s)", arrDesc(c.Base), c.Lo, c.N)
	case *ArrBytes:
		return fmt.Sprintf("bytes(%x)", c.B)
	}
	return "?"
}
