package main

import (
	"fmt"
	"os"
	"runtime/debug"
	"sync"
	"go/types"
	"sort"
	"strings"

	"golang.org/x/tools/go/packages"
	"golang.org/x/tools/go/ssa"
)

// Control-flow signals (panics recovered by the path driver).
type pathEnd struct{ why string }
type unsupported struct{ msg string }

func unsup(format string, a ...interface{}) {
	msg := fmt.Sprintf(format, a...)
	if os.Getenv("GOVC_STACK") != "" {
		msg += "\n" + string(debug.Stack())
	}
	panic(unsupported{msg})
}

type Obligation struct {
	Name   string
	Kind   string // safety post pre frame loop lemma cover canary ground
	Func   string
	Hyps   []*Term
	Goal   *Term
	Path   string // decision vector
	Expect string // "unsat" (valid) normally; "sat" for cover/canary
	Info   map[string]string
	Vars   []NamedTerm // terms of interest for replay
}

type NamedTerm struct {
	Name string
	T    *Term
}

type LogEntry struct {
	Callee string
	Target Value // receiver (writer object / conn)
	Arr    Arr   // bytes written (snapshot)
	Off    *Term
	N      *Term
	RetN   *Term
	Err    Value
	Args   []Value
	BufObj *Obj
	NowsBefore int
	Rets   []Value
	ArgT   []types.Type
}

type Snapshot struct {
	heap   map[int]Value
	maxObj int
	logLen int
}

type State struct {
	eng   *Engine
	heap  map[int]Value
	nobj  int
	pc    []*Term
	log   []LogEntry
	fresh map[string]int

	decisions []int
	dpos      int
	newAlts   [][]int

	entry   *Snapshot
	oldSnap *Snapshot // snapshot that old() refers to in the clause being evaluated
	pure    int       // >0: evaluating specification code (no obligations, no forks)

	obls  []*Obligation
	notes []string
	fnName string // function under verification (for obligation names)
	depth int

	allocBase int // objects with ID > allocBase were allocated by the code under verification
	globals   map[*ssa.Global]*Obj
	unmodelled []string
	closedChans map[int]bool
	steps int

	entryArgs     []Value
	objIndex      map[int]*Obj
	mapBaseFn     map[string]func(*Term) Value
	assuming      int
	inOld         int
	callerLogBase []int
	lastSince     *Term
	lastSinceRef  string
	nowCalls      []*Term
	opaqueArr     map[Arr]*Term
	peekViews     map[int][]*Obj
	foldSeen      map[int]bool
	axioms        []*Term
	streamView    map[int]*Obj
	unfoldCRC     bool
	nowsAtLastLog int
	rangeKeys     []Value
	selectCount   int
	framePrefix   string // name prefix of frame obligations (the loop ordinal inside a loop frame check)
	sumDone       map[string]bool // sumInt instances whose defining equation is already assumed
	mergeScalars  bool  // option merge-scalar-branches: pure scalar triangles/diamonds become ite instead of two paths
	rootAllArgs   []Value // closure roots: captured values followed by parameters
	fullLog       []LogEntry // inside old(): the whole current log (s.log is truncated to the old length)
	cutLoopAt     int // log length when the first cut loop was entered (-1: none)
	rvNewAt       map[int]int // reflect.New handles -> log length when created
	storeGuard    *Term // set while a defaulting triangle is executed speculatively: stores become guarded
	ghostlog      map[string]bool
	ghostlogContract map[string]bool // recorded callees whose own contract describes the results (ghostlog f+contract)
	doneChans     map[int]*ChanV
	blocking      int
	rvStore       map[int]map[string]*Term
	byteStr       map[int]*StringV
	probing       int
	rvCells       map[string]Value
}

func (s *State) freshName(base string) string {
	base = strings.Map(func(r rune) rune {
		if r == '_' || r == '.' || (r >= '0' && r <= '9') || (r >= 'a' && r <= 'z') || (r >= 'A' && r <= 'Z') {
			return r
		}
		return '_'
	}, base)
	s.fresh[base]++
	return fmt.Sprintf("%s!%d", base, s.fresh[base])
}

func (s *State) freshVar(base string, so Sort) *Term { return Var(s.freshName(base), so) }

func (s *State) decide(n int, tag string) int {
	if n <= 1 {
		return 0
	}
	if s.probing > 0 {
		// speculative probe: follow the first alternative, record nothing
		return 0
	}
	if s.dpos < len(s.decisions) {
		d := s.decisions[s.dpos]
		s.dpos++
		return d
	}
	for alt := 1; alt < n; alt++ {
		v := append(append([]int{}, s.decisions...), alt)
		s.newAlts = append(s.newAlts, v)
	}
	s.decisions = append(s.decisions, 0)
	s.dpos++
	return 0
}

func (s *State) assume(t *Term) {
	if t.IsTrue() {
		return
	}
	if t.IsFalse() {
		panic(pathEnd{"infeasible"})
	}
	if t.Op == "and" {
		for _, a := range t.Args {
			s.assume(a)
		}
		return
	}
	s.pc = append(s.pc, t)
}

func (s *State) pathString() string {
	var sb strings.Builder
	for i, d := range s.decisions[:s.dpos] {
		if i > 0 {
			sb.WriteByte('.')
		}
		fmt.Fprintf(&sb, "%d", d)
	}
	return sb.String()
}

func (s *State) oblige(kind, name string, goal *Term) *Obligation {
	if s.pure > 0 {
		return nil
	}
	o := &Obligation{Name: s.fnName + "#" + name, Kind: kind, Func: s.fnName, Hyps: append(append([]*Term{}, s.pc...), s.axioms...), Goal: goal, Path: s.pathString(), Expect: "unsat"}
	s.obls = append(s.obls, o)
	return o
}

// check emits a safety obligation and then assumes the condition.
func (s *State) check(name string, cond *Term) {
	if s.pure > 0 {
		return
	}
	if !cond.IsTrue() {
		s.oblige("safety", name, cond)
	} else {
		// record trivially discharged obligation for counting
		o := s.oblige("safety", name, cond)
		_ = o
	}
	s.assume(cond)
}

func (s *State) snapshot() *Snapshot {
	h := make(map[int]Value, len(s.heap))
	for k, v := range s.heap {
		h[k] = v
	}
	return &Snapshot{heap: h, maxObj: s.nobj, logLen: len(s.log)}
}

// ---- objects --------------------------------------------------------------

func (s *State) newObj(t types.Type, contents Value, name string, fresh bool) *Obj {
	s.nobj++
	o := &Obj{ID: s.nobj, Type: t, Name: name, Init: contents, Fresh: fresh, Pre: !fresh}
	s.heap[o.ID] = contents
	if s.objIndex == nil {
		s.objIndex = map[int]*Obj{}
	}
	s.objIndex[o.ID] = o
	return o
}

func (s *State) contents(o *Obj) Value {
	if v, ok := s.heap[o.ID]; ok {
		return v
	}
	return o.Init
}

// zeroValue of a type.
func (s *State) zeroValue(t types.Type) Value {
	if isOpaqueStruct(t) == "time.Time" {
		return &OpaqueV{Kind: "time.Time", T: App("time_zero", USort("Time"))}
	}
	if so, ok := sortOf(t); ok {
		if so.Kind == KBool {
			return False
		}
		return Const(so.W, 0)
	}
	switch u := t.Underlying().(type) {
	case *types.Basic:
		if u.Info()&types.IsString != 0 {
			e := ""
			return &StringV{Arr: &ArrBytes{}, Len: Const(64, 0), Lit: &e}
		}
		if u.Kind() == types.UnsafePointer {
			return &PtrV{Nil: True}
		}
	case *types.Pointer:
		return &PtrV{Nil: True, Elem: u.Elem()}
	case *types.Slice:
		return &SliceV{Off: Const(64, 0), Len: Const(64, 0), Cap: Const(64, 0), Elem: u.Elem()}
	case *types.Struct:
		sv := &StructV{Type: t}
		for i := 0; i < u.NumFields(); i++ {
			sv.Fields = append(sv.Fields, s.zeroValue(u.Field(i).Type()))
		}
		return sv
	case *types.Array:
		if so, ok := sortOf(u.Elem()); ok && so.Kind == KBV {
			return &ArrayV{Arr: &ArrZero{W: so.W}, N: Const(64, uint64(u.Len())), Elem: u.Elem()}
		}
		av := &ArrayV{N: Const(64, uint64(u.Len())), Elem: u.Elem()}
		if u.Len() > 4096 {
			unsup("large array of non-scalar elements")
		}
		for i := int64(0); i < u.Len(); i++ {
			av.Vals = append(av.Vals, s.zeroValue(u.Elem()))
		}
		return av
	case *types.Interface:
		return &IfaceV{Type: Const(32, 0), Handle: Const(64, 0), Static: t}
	case *types.Map:
		return &MapV{Nil: True}
	case *types.Chan:
		return &ChanV{Nil: True}
	case *types.Signature:
		return &FuncV{}
	case *types.Tuple:
		tv := &TupleV{}
		for i := 0; i < u.Len(); i++ {
			tv.Vals = append(tv.Vals, s.zeroValue(u.At(i).Type()))
		}
		return tv
	}
	unsup("zero value of %s", t)
	return nil
}

func isOpaqueStruct(t types.Type) string {
	switch types.TypeString(t, nil) {
	case "time.Time":
		return "time.Time"
	case "bufio.Reader":
		return "bufio.Reader"
	case "sync.Mutex", "sync.RWMutex", "sync.WaitGroup", "sync.Once":
		return "sync"
	case "reflect.Value":
		return "reflect.Value"
	case "x25.X25":
	}
	return ""
}

const maxLen = 1 << 40

func (s *State) lenAssume(l *Term) {
	s.assume(CmpBV("bvsle", Const(64, 0), l))
	s.assume(CmpBV("bvslt", l, Const(64, maxLen)))
}

// symValue: a fresh, unconstrained (beyond type invariants) value of type t.
func (s *State) symValue(t types.Type, name string) Value {
	if so, ok := sortOf(t); ok {
		return s.freshVar(name, so)
	}
	if k := isOpaqueStruct(t); k != "" {
		return s.symOpaque(k, name)
	}
	switch u := t.Underlying().(type) {
	case *types.Basic:
		if u.Info()&types.IsString != 0 {
			l := s.freshVar(name+".len", BV(64))
			s.lenAssume(l)
			return &StringV{Arr: &ArrVar{Name: s.freshName(name + ".str"), W: 8}, Len: l}
		}
	case *types.Pointer:
		p := &PtrV{Nil: s.freshVar(name+".isnil", BoolSort), Elem: u.Elem(), Addr: s.freshVar(name+".addr", BV(64))}
		nm := name
		p.lazy = func() *Obj {
			return s.newObj(u.Elem(), s.symValue(u.Elem(), "("+nm+")"), nm, false)
		}
		return p
	case *types.Slice:
		l := s.freshVar(name+".len", BV(64))
		c := s.freshVar(name+".cap", BV(64))
		// The backing array of a symbolic slice is reachable only through this slice (tree-shaped
		// pre-state), and Go cannot address elements before a slice's first one, so offset 0 is
		// without loss of generality.
		off := Const(64, 0)
		s.lenAssume(l)
		s.lenAssume(c)
		s.assume(CmpBV("bvsle", l, c))
		sv := &SliceV{Off: off, Len: l, Cap: c, Elem: u.Elem()}
		nm := name
		sv.lazy = func() *Obj {
			at := types.NewArray(u.Elem(), 0)
			n := Add(off, c)
			var contents Value
			if so, ok := sortOf(u.Elem()); ok && so.Kind == KBV {
				contents = &ArrayV{Arr: &ArrVar{Name: s.freshName(nm + ".arr"), W: so.W}, N: n, Elem: u.Elem()}
			} else {
				contents = &ArrayV{N: n, Elem: u.Elem()}
			}
			return s.newObj(at, contents, nm+".arr", false)
		}
		return sv
	case *types.Struct:
		sv := &StructV{Type: t}
		for i := 0; i < u.NumFields(); i++ {
			sv.Fields = append(sv.Fields, s.symValue(u.Field(i).Type(), name+"."+u.Field(i).Name()))
		}
		return sv
	case *types.Array:
		if so, ok := sortOf(u.Elem()); ok && so.Kind == KBV {
			return &ArrayV{Arr: &ArrVar{Name: s.freshName(name + ".a"), W: so.W}, N: Const(64, uint64(u.Len())), Elem: u.Elem()}
		}
		av := &ArrayV{N: Const(64, uint64(u.Len())), Elem: u.Elem()}
		if u.Len() > 64 {
			unsup("symbolic array of %d non-scalar elements", u.Len())
		}
		for i := int64(0); i < u.Len(); i++ {
			av.Vals = append(av.Vals, s.symValue(u.Elem(), fmt.Sprintf("%s[%d]", name, i)))
		}
		return av
	case *types.Interface:
		iv := &IfaceV{Type: s.freshVar(name+".type", BV(32)), Handle: s.freshVar(name+".h", BV(64)), Static: t, alts: map[int]Value{}}
		nm := name
		iv.mk = func(tid int) Value {
			ty := typeByID[tid]
			if ty == nil {
				return nil
			}
			v := s.symValue(ty, nm+".("+shortType(ty)+")")
			// assumed type invariant: interfaces do not hold typed nil pointers
			if p, ok := v.(*PtrV); ok {
				p.Nil = False
			}
			return v
		}
		if it, ok := t.Underlying().(*types.Interface); ok && it.NumMethods() > 0 && s.eng.closedWorld(t) == nil {
			// a non-nil value of interface type I has a dynamic type that implements I
			s.assume(Or(Eq(iv.Type, Const(32, 0)), App("implements_"+shortType(t), BoolSort, iv.Type)))
		}
		if cw := s.eng.closedWorld(t); cw != nil {
			// closed world (the interface has unexported methods): case split on the dynamic type right away
			d := s.decide(len(cw)+1, "dyntype:"+name)
			if d == 0 {
				iv.Type = Const(32, 0)
			} else {
				iv.Type = Const(32, uint64(typeID(cw[d-1])))
			}
		}
		return iv
	case *types.Map:
		return &MapV{Nil: s.freshVar(name+".isnil", BoolSort), Obj: s.newObj(t, &MapContents{KeyT: u.Key(), ElemT: u.Elem(), Base: s.freshName(name)}, name, false)}
	case *types.Chan:
		return &ChanV{Nil: s.freshVar(name+".isnil", BoolSort), Obj: s.newObj(t, &OpaqueV{Kind: "chan"}, name, false)}
	case *types.Signature:
		return &OpaqueV{Kind: "func", T: s.freshVar(name+".fn", BV(64))}
	case *types.Tuple:
		tv := &TupleV{}
		for i := 0; i < u.Len(); i++ {
			tv.Vals = append(tv.Vals, s.symValue(u.At(i).Type(), fmt.Sprintf("%s.%d", name, i)))
		}
		return tv
	}
	unsup("symbolic value of %s", t)
	return nil
}

func shortType(t types.Type) string {
	return types.TypeString(t, func(p *types.Package) string { return p.Name() })
}

func (s *State) symOpaque(kind, name string) Value {
	switch kind {
	case "time.Time":
		// abstract: a point in time = microseconds... keep three views as uninterpreted projections of one handle
		return &OpaqueV{Kind: kind, T: s.freshVar(name+".t", USort("Time"))}
	case "bufio.Reader":
		avail := s.freshVar(name+".avail", BV(64))
		pos := s.freshVar(name+".pos", BV(64))
		s.lenAssume(avail)
		s.assume(CmpBV("bvsle", Const(64, 0), pos))
		s.assume(CmpBV("bvsle", pos, avail))
		return &OpaqueV{Kind: kind, Aux: map[string]Value{
			"stream": &ArrayV{Arr: &ArrVar{Name: s.freshName(name + ".stream"), W: 8}, N: avail},
			"pos":    pos,
			"avail":  avail,
			"terr":   s.transportErr(name + ".terr"),
			"epoch":  Const(64, 0),
		}}
	case "sync":
		return &OpaqueV{Kind: kind, Aux: map[string]Value{"held": False}}
	case "reflect.Value":
		return &OpaqueV{Kind: kind, T: s.freshVar(name+".rv", BV(64))}
	}
	unsup("opaque %s", kind)
	return nil
}

// transportErr: a non-nil error whose dynamic type is not frame.ReadError.
func (s *State) transportErr(name string) Value {
	iv := &IfaceV{Type: Const(32, uint64(namedTypeID("opaque:transport-error"))), Handle: s.freshVar(name+".h", BV(64)), alts: map[int]Value{}}
	return iv
}

func (s *State) opaqueErr(kind string) Value {
	return &IfaceV{Type: Const(32, uint64(namedTypeID("opaque:"+kind))), Handle: s.freshVar("err.h", BV(64)), alts: map[int]Value{}}
}

// ---- memory access ----------------------------------------------------------

// embedArray moves the array at path inside object o into a shadow object (once) and returns the shadow.
func (s *State) embedArray(o *Obj, path []Sel) *Obj {
	cur := s.contents(o)
	v := cur
	for _, sel := range path {
		if ev, ok := v.(*EmbedV); ok {
			v = s.contents(ev.Obj)
		}
		switch c := v.(type) {
		case *StructV:
			v = c.Fields[sel.Field]
		default:
			unsup("slicing an array nested in %T", v)
		}
	}
	if ev, ok := v.(*EmbedV); ok {
		return ev.Obj
	}
	av, ok := v.(*ArrayV)
	if !ok {
		unsup("slicing a field that holds %T", v)
	}
	var t types.Type = o.Type
	for _, sel := range path {
		if st, ok := t.Underlying().(*types.Struct); ok {
			t = st.Field(sel.Field).Type()
		}
	}
	sh := s.newObj(t, av, o.Name+".embedded", o.Fresh)
	s.heap[o.ID] = s.replaceAt(cur, path, &EmbedV{Obj: sh})
	return sh
}

// replaceAt: like update, but replaces the value at path itself (no redirection through markers on the last step).
func (s *State) replaceAt(v Value, path []Sel, nv Value) Value {
	if len(path) == 0 {
		return nv
	}
	c, ok := v.(*StructV)
	if !ok {
		unsup("replaceAt into %T", v)
	}
	n := &StructV{Type: c.Type, Fields: append([]Value{}, c.Fields...)}
	n.Fields[path[0].Field] = s.replaceAt(c.Fields[path[0].Field], path[1:], nv)
	return n
}

func (s *State) navigate(v Value, path []Sel) Value {
	for _, sel := range path {
		if ev, ok := v.(*EmbedV); ok {
			v = s.contents(ev.Obj)
		}
		switch c := v.(type) {
		case *StructV:
			v = c.Fields[sel.Field]
		case *ArrayV:
			if c.Arr != nil {
				return c.Arr.Select(sel.Index)
			}
			if !sel.Index.IsConst() || sel.Index.Val >= uint64(len(c.Vals)) {
				// Element of a table of non-scalars: every scalar leaf is an uninterpreted function of the index
				// (so equal indices give equal values).  Object identity is per index TERM, therefore such
				// elements are read-only: writing through them is refused.
				if c.sym == nil {
					c.sym = map[int]Value{}
				}
				if x, ok := c.sym[sel.Index.id]; ok {
					v = x
				} else {
					if c.Name == "" {
						c.Name = s.freshName("table")
					}
					x := s.symValueAt(c.Elem, c.Name, sel.Index)
					c.sym[sel.Index.id] = x
					v = x
				}
				continue
			}
			v = c.Vals[sel.Index.Val]
		default:
			unsup("navigate into %T", v)
		}
	}
	if ev, ok := v.(*EmbedV); ok {
		v = s.contents(ev.Obj)
	}
	return v
}

func (s *State) update(v Value, path []Sel, nv Value) Value {
	if ev, ok := v.(*EmbedV); ok {
		// the array lives in its shadow object: write there, the marker stays
		s.heap[ev.Obj.ID] = s.update(s.contents(ev.Obj), path, nv)
		return v
	}
	if len(path) == 0 {
		return nv
	}
	sel := path[0]
	switch c := v.(type) {
	case *StructV:
		n := &StructV{Type: c.Type, Fields: append([]Value{}, c.Fields...)}
		n.Fields[sel.Field] = s.update(c.Fields[sel.Field], path[1:], nv)
		return n
	case *ArrayV:
		if c.Arr != nil {
			t, ok := nv.(*Term)
			if !ok {
				unsup("store non-scalar into scalar array")
			}
			return &ArrayV{Arr: &ArrStore{Base: c.Arr, Idx: sel.Index, Val: t}, N: c.N, Elem: c.Elem}
		}
		if !sel.Index.IsConst() {
			// weak update: after a store at a symbolic index nothing is known about any element of the table
			// (reads give arbitrary read-only elements; writing through them stays refused)
			// (the element just stored is remembered for reads at the very same index term)
			if len(path) == 1 {
				return &ArrayV{N: c.N, Elem: c.Elem, Name: s.freshName("table.weak"), sym: map[int]Value{sel.Index.id: nv}}
			}
			return &ArrayV{N: c.N, Elem: c.Elem, Name: s.freshName("table.weak")}
		}
		n := &ArrayV{N: c.N, Elem: c.Elem, Vals: append([]Value{}, c.Vals...)}
		for uint64(len(n.Vals)) <= sel.Index.Val {
			n.Vals = append(n.Vals, s.zeroValue(c.Elem))
		}
		n.Vals[sel.Index.Val] = s.update(n.Vals[sel.Index.Val], path[1:], nv)
		return n
	}
	unsup("update into %T", v)
	return nil
}

func (s *State) derefCheck(p *PtrV, where string) *Obj {
	s.check("safety:nil@"+where, Not(p.Nil))
	o := p.object()
	if o == nil {
		if s.pure > 0 {
			return nil
		}
		panic(pathEnd{"nil dereference"})
	}
	return o
}

func (s *State) load(p *PtrV, where string) Value {
	o := s.derefCheck(p, where)
	if o == nil {
		return s.zeroValue(p.Elem)
	}
	if o.Shared && s.pure == 0 {
		return s.symValue(p.Elem, "shared."+o.Name)
	}
	return s.navigate(s.contents(o), p.Path)
}

func (s *State) store(p *PtrV, v Value, where string) {
	o := s.derefCheck(p, where)
	if o == nil {
		return
	}
	if o.ReadOnly {
		unsup("store through an element reached by a symbolic index")
	}
	if c, ok := v.(*ChanV); ok && c.Obj != nil && (c.Obj.Name == "makechan" || c.Obj.Name == "") {
		nm := o.Name
		if len(p.Path) > 0 && p.Path[len(p.Path)-1].Field >= 0 {
			if st, ok := p.fieldOwner().(*types.Struct); ok {
				nm = st.Field(p.Path[len(p.Path)-1].Field).Name()
			}
		}
		if nm != "" {
			c.Obj.Name = nm
		}
	}
	s.heap[o.ID] = s.update(s.contents(o), p.Path, v)
}

// arrayOf returns the scalar array contents of the backing object of a slice.
func (s *State) arrayOf(o *Obj) *ArrayV {
	av, ok := s.contents(o).(*ArrayV)
	if !ok {
		unsup("backing object is %T", s.contents(o))
	}
	return av
}

func (s *State) sliceArr(sl *SliceV) Arr {
	o := sl.object()
	if o == nil {
		return &ArrZero{W: 8}
	}
	av := s.arrayOf(o)
	if av.Arr == nil {
		unsup("slice of non-scalars")
	}
	return av.Arr
}

// ---- engine -----------------------------------------------------------------

type Engine struct {
	prog      *ssa.Program
	pkgs      map[string]*ssa.Package // by import path
	contracts map[*ssa.Function]*FuncContract
	cfuncs    map[string]*ssa.Function // clause function name -> fn
	closed    map[string][]types.Type  // interface type string -> implementing types
	specPure  map[*ssa.Function]bool   // functions from overlay (spec helpers / clause functions)
	repo      string
	modulePrefix string
	root      *ssa.Function
	defined   map[string]bool // spec functions already turned into define-fun
	trustedUsed map[string]bool
	contractsUsed map[string]bool // contracts applied at call sites during this run
	inlineAll bool
	loadedPkgs []*packages.Package
	neverWritten map[*ssa.Global]bool
	constMaps map[*ssa.Global]*constMap
	ifConvert bool
	boundK           int  // > 0: bounded stand-in run, contract-less loops are cut after this many symbolic iterations
	reachAntecedents bool // thorough tier: audit that the antecedent of every `A ==> B` postcondition is reachable
}

func (e *Engine) closedWorld(t types.Type) []types.Type {
	return e.closed[types.TypeString(t, nil)]
}

func sortedKeys(m map[string]bool) []string {
	var ks []string
	for k := range m {
		ks = append(ks, k)
	}
	sort.Strings(ks)
	return ks
}

// proves: the current path condition entails cond (decided by one quick solver call, cached per query text).
// Used only to simplify generated terms (e.g. the min() of copy); a "no" answer is always safe.
var provesCache sync.Map

func (s *State) proves(cond *Term) bool {
	if cond.IsTrue() {
		return true
	}
	if cond.IsFalse() {
		return false
	}
	hyps := append(append([]*Term{}, s.pc...), s.axioms...)
	var qf []*Term
	for _, h := range hyps {
		if h.Op != "forall" {
			qf = append(qf, h)
		}
	}
	q := Query(qf, cond, false)
	if v, ok := provesCache.Load(q); ok {
		return v.(bool)
	}
	r := runSolvers(q, 2, false, "z3")
	ok := r.Status == "unsat"
	provesCache.Store(q, ok)
	return ok
}

func (s *State) markReadOnly(v Value) {
	if p, ok := v.(*PtrV); ok {
		old := p.lazy
		if old != nil {
			p.lazy = func() *Obj {
				o := old()
				o.ReadOnly = true
				return o
			}
		}
	}
}

// symValueAt: value of type t whose scalar leaves are uninterpreted functions base.path(idx).
func (s *State) symValueAt(t types.Type, base string, idx *Term) Value {
	if so, ok := sortOf(t); ok {
		return App(base, so, idx)
	}
	switch u := t.Underlying().(type) {
	case *types.Basic:
		if u.Info()&types.IsString != 0 {
			l := App(base+".len", BV(64), idx)
			s.lenAssume(l)
			return &StringV{Arr: &ArrVar{Name: s.freshName(base + ".str"), W: 8}, Len: l}
		}
	case *types.Pointer:
		p := &PtrV{Nil: App(base+".isnil", BoolSort, idx), Elem: u.Elem(), Addr: App(base+".addr", BV(64), idx)}
		p.lazy = func() *Obj {
			o := s.newObj(u.Elem(), s.symValueAt(u.Elem(), base+".", idx), base, false)
			o.ReadOnly = true
			return o
		}
		return p
	case *types.Struct:
		sv := &StructV{Type: t}
		for i := 0; i < u.NumFields(); i++ {
			sv.Fields = append(sv.Fields, s.symValueAt(u.Field(i).Type(), base+"."+u.Field(i).Name(), idx))
		}
		return sv
	case *types.Interface:
		iv := &IfaceV{Type: App(base+".type", BV(32), idx), Handle: App(base+".h", BV(64), idx), Static: t, alts: map[int]Value{}}
		iv.mk = func(tid int) Value {
			ty := typeByID[tid]
			if ty == nil {
				return nil
			}
			v := s.symValueAt(ty, base+".("+shortType(ty)+")", idx)
			if p, ok := v.(*PtrV); ok {
				p.Nil = False
			}
			return v
		}
		return iv
	}
	v := s.symValue(t, base)
	return v
}

// fieldOwner: the struct type that owns the last field selector of the pointer's path.
func (p *PtrV) fieldOwner() types.Type {
	if p.Obj == nil {
		return nil
	}
	t := p.Obj.Type
	for i, sel := range p.Path {
		if i == len(p.Path)-1 {
			return t.Underlying()
		}
		switch u := t.Underlying().(type) {
		case *types.Struct:
			t = u.Field(sel.Field).Type()
		case *types.Array:
			t = u.Elem()
		}
	}
	return nil
}
