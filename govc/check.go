package main

import (
	"bufio"
	"encoding/json"
	"fmt"
	"os"
	"path/filepath"
	"regexp"
	"runtime"
	"sort"
	"strconv"
	"strings"
	"time"
)

type FuncSel struct {
	Pkg    string   `json:"pkg"`
	Func   string   `json:"func"`
	Posts  []string `json:"posts,omitempty"`  // regexes over clause labels; empty = every clause
	Role   string   `json:"role,omitempty"`   // free text: why this function carries the property
	Skip   []string `json:"skip,omitempty"`   // regexes over obligation names that this check does NOT decide (listed in evidence)
}

type PropConf struct {
	ID          string    `json:"id"`
	Packages    []string  `json:"packages"`
	Functions   []FuncSel `json:"functions"`
	Ground      []string  `json:"ground,omitempty"`
	StandinConfs []StandinConf `json:"standins,omitempty"`
	Assumptions []string  `json:"assumptions"`
	NotDecided  []string  `json:"not_decided,omitempty"`
	Replay      map[string]string `json:"replay,omitempty"` // function -> replay template name
	Enums       []string `json:"enums,omitempty"` // dialect package dirs whose generated enum text methods are verified
	Level       string `json:"level,omitempty"`       // evidence level (default proof)
	Explanation string `json:"explanation,omitempty"`
}

type KnownFinding struct {
	Kind       string `json:"kind"` // "known" or "fixed"
	Property   string `json:"property"`
	Obligation string `json:"obligation,omitempty"` // exact obligation name, or prefix ending in *
	Item       string `json:"item,omitempty"`       // for non-SMT obligations (enum type, message shape ...)
	Commit     string `json:"commit,omitempty"`
	What       string `json:"what"`
}

func loadKnown() []KnownFinding {
	var out []KnownFinding
	f, err := os.Open(filepath.Join(verifDir, "known_findings.jsonl"))
	if err != nil {
		return nil
	}
	defer f.Close()
	sc := bufio.NewScanner(f)
	sc.Buffer(make([]byte, 1<<20), 1<<20)
	for sc.Scan() {
		l := strings.TrimSpace(sc.Text())
		if l == "" || strings.HasPrefix(l, "#") {
			continue
		}
		var k KnownFinding
		if json.Unmarshal([]byte(l), &k) == nil {
			out = append(out, k)
		}
	}
	return out
}

func matchKnown(ks []KnownFinding, prop, obligation, item string) *KnownFinding {
	for i := range ks {
		k := &ks[i]
		if k.Kind != "known" || k.Property != prop {
			continue
		}
		if item != "" || k.Item != "" {
			if k.Item == item && (k.Obligation == "" || k.Obligation == obligation) {
				return k
			}
			continue
		}
		if k.Obligation == obligation {
			return k
		}
		if strings.HasSuffix(k.Obligation, "*") && strings.HasPrefix(obligation, strings.TrimSuffix(k.Obligation, "*")) {
			return k
		}
	}
	return nil
}

type Evidence struct {
	PropertyID  string                 `json:"property_id"`
	Tier        string                 `json:"tier"`
	Seed        int                    `json:"seed"`
	Level       string                 `json:"level"`
	Coverage    map[string]interface{} `json:"coverage"`
	Assumptions []string               `json:"assumptions"`
	WallS       float64                `json:"wall_s"`
	Violations  int                    `json:"violations"`
}

type checkCtx struct {
	id       string
	tier     string
	seed     int
	conf     *PropConf
	known    []KnownFinding
	lines    []string // VIOLATION / KNOWN-FINDING lines
	violations int
	outDir   string
	replays  int
}

func (c *checkCtx) violation(obligation, replayPath string, found bool) {
	c.violations++
	fmt.Printf("FAILED-OBLIGATION property=%s obligation=%s\n", c.id, obligation)
	l := fmt.Sprintf("VIOLATION property=%s replay=%s", c.id, replayPath)
	if !found {
		l += " no-failing-input-found"
	}
	c.lines = append(c.lines, l)
	fmt.Println(l)
}

func cmdCheck(args []string) int {
	if len(args) < 1 {
		fmt.Fprintln(os.Stderr, "usage: govc check <property> [quick|thorough]")
		return 2
	}
	id := args[0]
	tier := "quick"
	if len(args) > 1 {
		tier = args[1]
	}
	if t := os.Getenv("VERIF_TIER"); t != "" && len(args) < 2 {
		tier = t
	}
	seed := 1
	if s := os.Getenv("VERIF_SEED"); s != "" {
		if v, err := strconv.Atoi(s); err == nil {
			seed = v
		}
	}
	t0 := time.Now()
	data, err := os.ReadFile(filepath.Join(verifDir, "props", id+".json"))
	if err != nil {
		fmt.Fprintln(os.Stderr, "no configuration for property", id, err)
		return 2
	}
	var conf PropConf
	if err := json.Unmarshal(data, &conf); err != nil {
		fmt.Fprintln(os.Stderr, "bad configuration:", err)
		return 2
	}
	outRoot := verifDir
	if d := os.Getenv("GOVC_OUT"); d != "" {
		outRoot = d // selftests write their evidence and replay files elsewhere
	}
	ctx := &checkCtx{id: id, tier: tier, seed: seed, conf: &conf, known: loadKnown(), outDir: filepath.Join(outRoot, "out", id)}
	os.RemoveAll(ctx.outDir)
	os.MkdirAll(ctx.outDir, 0o755)

	cov := map[string]interface{}{}
	ev := &Evidence{PropertyID: id, Tier: tier, Seed: seed, Level: "proof", Coverage: cov}
	code := ctx.runContracts(cov)
	code2 := ctx.runExtras(cov)
	if c3 := ctx.runEnums(cov); c3 > code2 {
		code2 = c3
	}
	if code2 > code {
		code = code2
	}
	ev.Assumptions = append(ev.Assumptions, conf.Assumptions...)
	if ta, ok := cov["trusted_base"].([]string); ok {
		ev.Assumptions = append(ev.Assumptions, ta...)
	}
	ev.Assumptions = append(ev.Assumptions, engineAssumptions...)
	if conf.Level != "" {
		ev.Level = conf.Level
	}
	if conf.Explanation != "" {
		cov["explanation"] = conf.Explanation
	}
	ev.WallS = time.Since(t0).Seconds()
	ev.Violations = ctx.violations
	cov["not_decided"] = conf.NotDecided
	cov["checker_cmd"] = fmt.Sprintf("./bin/check %s %s", id, tier)
	os.MkdirAll(filepath.Join(outRoot, "evidence"), 0o755)
	out, _ := json.MarshalIndent(ev, "", " ")
	if err := os.WriteFile(filepath.Join(outRoot, "evidence", id+".json"), out, 0o644); err != nil {
		fmt.Fprintln(os.Stderr, "cannot write evidence:", err)
		return 2
	}
	if ctx.violations > 0 {
		return 1
	}
	if code != 0 {
		return code
	}
	extra := ""
	if b, ok := cov["bounded_stand_ins_this_run"].([]string); ok && len(b) > 0 {
		extra = fmt.Sprintf(" functions-checked-bounded-not-proved=%d", len(b))
	}
	fmt.Printf("OK property=%s tier=%s obligations=%v discharged=%v%s wall=%.1fs\n", id, tier, cov["obligations"], cov["discharged"], extra, ev.WallS)
	return 0
}

var engineAssumptions = []string{
	"go/packages, go/types, go/ssa (x/tools v0.29.0) produce a faithful SSA form of the source; govc's SSA->SMT semantics (machine integers: every Go integer is a bit-vector of its width; 64-bit int) is cross-checked only by the must-fail corpus and by replays",
	"solvers z3 4.8.12, z3 5.1.0 (z3-new), cvc5 1.0.3 are sound; first unsat wins in quick, all answering solvers must agree in thorough",
	"pre-state heap is tree shaped: distinct pointer/slice parameters and fields reference distinct objects unless a contract says otherwise (checked at every call site under contract: pre:noalias)",
	"interfaces do not hold typed nil pointers; slices taken from the pre-state are non-nil; lengths and capacities are below 2^40",
	"no reasoning about memory exhaustion, stack depth, scheduling or real time",
}

type solvedFunc struct {
	sel  FuncSel
	rep  *FuncReport
	fc   *FuncContract
}

func (c *checkCtx) runContracts(cov map[string]interface{}) int {
	conf := c.conf
	if len(conf.Functions) == 0 {
		return 0
	}
	ld, err := load(repoDir, conf.Packages, filepath.Join(verifDir, "spec"))
	if err != nil {
		// the tree does not load with the contracts: every contract of this property is unbound
		p := filepath.Join(c.outDir, "load-error.txt")
		os.WriteFile(p, []byte("obligation: bind:load\n\n"+err.Error()+"\n"), 0o644)
		c.violation("bind:load", p, false)
		cov["obligations"] = 1
		cov["discharged"] = 0
		cov["trusted_base"] = []string{}
		return 1
	}
	timeout := 10
	all := false
	// every postcondition `A ==> B` also asks that A be reachable at some return of the function (both tiers): a
	// change after which A cannot happen any more makes the clause hold vacuously, and that is reported
	ld.eng.reachAntecedents = true
	if c.tier == "thorough" {
		timeout = 60
		all = true
	}
	var obls []*Obligation
	var funcs []map[string]interface{}
	var unsupportedAll []string
	var boundedAll []string
	trusted := map[string]bool{}
	var orphans []string
	for _, b := range ld.bindErrors {
		// a contract whose function is gone (or changed its arity) is unbound: no call site uses it any more.  That is a
		// failure of the properties that put this function under contract, and only a note for the others.
		if rest := strings.TrimPrefix(b, "bind:"); rest != b {
			if k := strings.Index(rest, ": "); k > 0 {
				if d := strings.Index(rest[:k], "."); d > 0 {
					pkgName, qual := rest[:d], rest[d+1:k]
					mine := false
					for _, sel := range conf.Functions {
						if pc := ld.pcs[sel.Pkg]; pc != nil && pc.Name == pkgName && sel.Func == qual {
							mine = true
						}
					}
					if !mine {
						orphans = append(orphans, b)
						continue
					}
				}
			}
		}
		p := filepath.Join(c.outDir, "bind-error.txt")
		os.WriteFile(p, []byte("obligation: "+b+"\n"), 0o644)
		c.violation(strings.SplitN(b, ":", 3)[0]+":"+firstField(b), p, false)
	}
	for _, sel := range conf.Functions {
		sp := ld.eng.pkgs[relToImport(sel.Pkg)]
		fn := findFunc(ld.eng.prog, sp, sel.Func)
		if fn == nil {
			p := filepath.Join(c.outDir, "bind-error.txt")
			os.WriteFile(p, []byte("obligation: bind:"+sel.Pkg+":"+sel.Func+"\nfunction under contract no longer exists\n"), 0o644)
			c.violation("bind:"+sel.Func, p, false)
			continue
		}
		fc := ld.eng.contracts[fn]
		if fc == nil {
			p := filepath.Join(c.outDir, "bind-error.txt")
			os.WriteFile(p, []byte("obligation: bind:"+sel.Pkg+":"+sel.Func+"\nno contract bound\n"), 0o644)
			c.violation("bind:"+sel.Func, p, false)
			continue
		}
		if fc.Trusted {
			trusted[shortFn(fn)] = true
			funcs = append(funcs, map[string]interface{}{"name": shortFn(fn), "status": "trusted (assumed contract, body not verified)", "assumes": fc.Assumes})
			continue
		}
		rep := ld.eng.verifyFunc(fn, fc)
		var boundedNote map[string]interface{}
		if fc.boundedEligible() {
			// the loop contracts of a terminating computation loop no longer fit the code (a rewritten loop): the proof of
			// this function is lost, whatever its other obligations say.  Its contract is then CHECKED, not proved, by
			// unrolling up to a bound; a refutation found that way is a violation with a concrete input, none is a pass
			// labelled bounded.  Undecided answers leave the lost proof to be reported as it is.
			if lost := loopProofLost(rep, timeout); len(lost) > 0 {
				k := 6
				if c.tier == "thorough" {
					k = 12
				}
				rep2 := ld.eng.verifyFuncBounded(fn, fc, k)
				if len(rep2.Unsupported) == 0 && rep2.Completed > 0 && len(rep2.Obligations) > 0 {
					vs2 := discharge(rep2.Obligations, dischargeOpts{timeoutS: timeout, all: false, workers: (runtime.NumCPU() + 1) / 2})
					refuted, undecided := 0, 0
					for _, ns := range summarize(vs2) {
						if len(ns.Failed) > 0 {
							refuted++
						} else if len(ns.Unknown) > 0 {
							undecided++
						}
					}
					if undecided == 0 {
						rep = rep2
						boundedNote = map[string]interface{}{"bound_symbolic_iterations_per_loop": k, "proof_lost_at": lost,
							"paths_within_bound": rep2.Completed, "paths_cut_at_bound": rep2.Ends["bound"], "refuted_obligations": refuted}
						if refuted == 0 {
							fmt.Printf("BOUNDED property=%s function=%s loop contract no longer fits (%s); contract checked by unrolling, at most %d iterations per loop, %d paths: holds within the bound (not a proof)\n",
								c.id, rep.Name, strings.Join(lost, ", "), k, rep2.Completed)
							boundedAll = append(boundedAll, fmt.Sprintf("%s: loop contract no longer fits (%s); bounded stand-in, at most %d iterations per loop", rep.Name, strings.Join(lost, ", "), k))
						}
					}
				}
			}
		}
		var res []*regexp.Regexp
		for _, p := range sel.Posts {
			res = append(res, regexp.MustCompile(p))
		}
		kept := 0
		var skipRe []*regexp.Regexp
		for _, p := range sel.Skip {
			skipRe = append(skipRe, regexp.MustCompile(p))
		}
		skippedNames := map[string]bool{}
		for _, o := range rep.Obligations {
			if len(rep.Unsupported) > 0 && (o.Kind == "canary" || o.Kind == "cover" || o.Kind == "reach") {
				// the exploration of this function stopped early (engine:unsupported is reported for it): that some
				// return was not reached says nothing
				continue
			}
			skip := false
			for _, r := range skipRe {
				if r.MatchString(o.Name) {
					skip = true
				}
			}
			if skip {
				skippedNames[o.Name] = true
				continue
			}
			if o.Kind == "post" && len(res) > 0 {
				lbl := strings.TrimPrefix(o.Name[strings.Index(o.Name, "#")+1:], "post:")
				ok := false
				for _, r := range res {
					if r.MatchString(lbl) {
						ok = true
					}
				}
				if !ok {
					continue
				}
			}
			obls = append(obls, o)
			kept++
		}
		fm := map[string]interface{}{"name": rep.Name, "file": rep.File, "ssa_instructions": rep.Instrs, "paths": rep.Paths, "paths_completed": rep.Completed, "obligation_instances": kept}
		if sel.Role != "" {
			fm["role"] = sel.Role
		}
		if len(skippedNames) > 0 {
			fm["obligations_not_decided_by_this_check"] = sortedKeys(skippedNames)
		}
		if len(rep.Unsupported) > 0 {
			fm["unsupported"] = rep.Unsupported
			for _, u := range rep.Unsupported {
				unsupportedAll = append(unsupportedAll, rep.Name+": "+u)
			}
		}
		if len(rep.Unmodelled) > 0 {
			fm["unmodelled_calls"] = rep.Unmodelled
		}
		if boundedNote != nil {
			fm["bounded_stand_in"] = boundedNote
			fm["status"] = "bounded (loop contract no longer fits the code; NOT proved)"
		}
		if len(fc.Assumes) > 0 {
			fm["assumes"] = fc.Assumes
		}
		funcs = append(funcs, fm)
	}
	vs := discharge(obls, dischargeOpts{timeoutS: timeout, all: all, workers: (runtime.NumCPU() + 1) / 2})
	sums := summarize(vs)
	nOb, nDis := 0, 0
	byKind := map[string]int{}
	bySolver := map[string]int{}
	solverTime := 0.0
	var samples []interface{}
	var failedNames []string
	vacuous := 0
	knownPrinted := map[string]bool{}
	var knownMatched []string
	reachChecked := 0
	var unreachable []string
	for _, ns := range sums {
		if ns.Kind == "reach" {
			// audit only (thorough tier): is the antecedent of an `A ==> B` clause reachable at some return?
			// An unreachable antecedent is listed in the evidence; it is not a violation of the property.
			reachChecked++
			solverTime += ns.Time
			if len(ns.Failed) > 0 && len(ns.Unknown) == 0 {
				// refuted on every path: no execution of the function reaches a return with A
				if matchKnown(c.known, c.id, ns.Name, "") == nil {
					nOb++
					byKind[ns.Kind]++
					failedNames = append(failedNames, ns.Name)
					vacuous++
					c.reportFailure(ns)
					continue
				}
			}
			if len(ns.Failed) > 0 || (ns.Discharged == 0 && len(ns.Unknown) > 0) {
				unreachable = append(unreachable, strings.Replace(ns.Name, "#reach:", "#post:", 1))
			}
			continue
		}
		nOb++
		byKind[ns.Kind]++
		solverTime += ns.Time
		for k, n := range ns.Solvers {
			bySolver[k] += n
		}
		bad := len(ns.Failed) > 0 || len(ns.Unknown) > 0
		if !bad {
			nDis++
			continue
		}
		if k := matchKnown(c.known, c.id, ns.Name, ""); k != nil {
			// a recorded genuine defect: reported, not counted among the obligations expected to discharge
			nOb--
			byKind[ns.Kind]--
			msg := fmt.Sprintf("KNOWN-FINDING: property=%s %s", c.id, k.What)
			if !knownPrinted[msg] {
				knownPrinted[msg] = true
				fmt.Println(msg)
			}
			knownMatched = append(knownMatched, ns.Name)
			continue
		}
		failedNames = append(failedNames, ns.Name)
		if ns.Kind == "cover" || ns.Kind == "canary" {
			vacuous++
		}
		c.reportFailure(ns)
	}
	// samples: a few discharged obligations as SMT text
	nsamp := 0
	for _, v := range vs {
		if v.Status == "discharged" && v.Query != "trivial" && v.O.Kind == "post" && nsamp < 2 {
			q := v.Query
			if len(q) > 3000 {
				q = q[:3000] + "\n; ... (truncated)"
			}
			samples = append(samples, map[string]interface{}{"obligation": v.O.Name, "path": v.O.Path, "solver": v.Result.Solver, "time_s": v.Result.Time, "smt2": q})
			nsamp++
		}
	}
	for _, ns := range sums {
		if len(samples) < 8 && len(ns.Failed) == 0 && len(ns.Unknown) == 0 {
			samples = append(samples, map[string]interface{}{"obligation": ns.Name, "instances": ns.Total, "discharged_by": ns.Solvers})
		}
	}
	for _, u := range unsupportedAll {
		// an unsupported construct inside a function under contract: the proof for that function is lost
		p := filepath.Join(c.outDir, "unsupported.txt")
		os.WriteFile(p, []byte("obligation: engine:unsupported\n"+strings.Join(unsupportedAll, "\n")+"\n"), 0o644)
		c.violation("engine:unsupported:"+firstField(u), p, false)
		nOb++
	}
	var tb []string
	for _, k := range sortedKeys(ld.eng.trustedUsed) {
		tb = append(tb, "trusted library/dependency model: "+k)
	}
	for _, k := range sortedKeys(trusted) {
		tb = append(tb, "assumed contract (trusted, body not verified here): "+k)
	}
	// contracts applied at call sites whose functions this check does not verify itself (another property's check does)
	verifiedHere := map[string]bool{}
	for _, f := range funcs {
		if n, ok := f["name"].(string); ok {
			verifiedHere[strings.TrimPrefix(strings.TrimPrefix(n, "(*"), "(")] = true
			verifiedHere[n] = true
		}
	}
	var elsewhere []string
	for _, k := range sortedKeys(ld.eng.contractsUsed) {
		if !verifiedHere[k] {
			elsewhere = append(elsewhere, k)
		}
	}
	if len(elsewhere) > 0 {
		cov["callee_contracts_assumed_here_verified_by_other_checks"] = elsewhere
	}
	cov["obligations"] = nOb + asInt(cov["obligations"])
	cov["discharged"] = nDis + asInt(cov["discharged"])
	cov["obligation_instances"] = len(obls)
	cov["distinct_queries"] = len(vs)
	cov["by_kind"] = byKind
	cov["by_backend"] = bySolver
	cov["solver_time_s"] = solverTime
	cov["functions_under_contract"] = funcs
	cov["trusted_base"] = tb
	if len(boundedAll) > 0 {
		cov["bounded_stand_ins_this_run"] = boundedAll
	}
	if len(orphans) > 0 {
		cov["unbound_contracts_outside_this_property"] = orphans
	}
	cov["samples"] = samples
	cov["failed"] = failedNames
	cov["known_findings_matched"] = knownMatched
	vac := map[string]interface{}{"cover_and_canary_obligations": byKind["cover"] + byKind["canary"], "vacuous": vacuous}
	if c.tier == "thorough" {
		vac["implication_antecedents_audited"] = reachChecked
		vac["antecedents_not_shown_reachable"] = unreachable
	}
	cov["vacuity"] = vac
	if len(failedNames) > 0 {
		return 1
	}
	return 0
}

func asInt(v interface{}) int {
	if i, ok := v.(int); ok {
		return i
	}
	return 0
}

// loopProofLost names the loop obligations of a function that fail (or cannot be generated): the loop contract does
// not fit the loop any more.
func loopProofLost(rep *FuncReport, timeout int) []string {
	seen := map[string]bool{}
	var lost []string
	add := func(n string) {
		if !seen[n] {
			seen[n] = true
			lost = append(lost, n)
		}
	}
	for _, u := range rep.Unsupported {
		if strings.Contains(u, "needs an invariant") || strings.Contains(u, "loop bind") || strings.Contains(u, "slice loop variable") {
			add("unsupported: " + firstField(u))
		}
	}
	var loopObls []*Obligation
	for _, o := range rep.Obligations {
		if o.Kind == "loop" || strings.Contains(o.Name, "#bind:loop") || (o.Kind == "frame" && strings.Contains(o.Name, "#loop")) {
			loopObls = append(loopObls, o)
		}
	}
	if len(loopObls) > 0 {
		for _, v := range discharge(loopObls, dischargeOpts{timeoutS: timeout, workers: (runtime.NumCPU() + 1) / 2}) {
			if v.Status == "failed" || v.Status == "unknown" {
				add(v.O.Name[strings.Index(v.O.Name, "#")+1:])
			}
		}
	}
	sort.Strings(lost)
	return lost
}

func firstField(s string) string {
	f := strings.Fields(s)
	if len(f) == 0 {
		return ""
	}
	return strings.Trim(f[0], ":")
}

// reportFailure decides what a failed or undecided obligation means and prints the corresponding line.
func (c *checkCtx) reportFailure(ns *NameSummary) {
	dir := filepath.Join(c.outDir, "replay")
	os.MkdirAll(dir, 0o755)
	safe := strings.NewReplacer("/", "_", " ", "_", "(", "", ")", "", "*", "P", "#", "-", ":", "_", "@", "_").Replace(ns.Name)
	p := filepath.Join(dir, safe+".txt")
	var sb strings.Builder
	fmt.Fprintf(&sb, "obligation: %s\nkind: %s\nfunction: %s\ninstances: %d discharged: %d failed: %d undecided: %d\n", ns.Name, ns.Kind, ns.Func, ns.Total, ns.Discharged, len(ns.Failed), len(ns.Unknown))
	found := false
	var first *Verdict
	for _, v := range append(append([]*Verdict{}, ns.Failed...), ns.Unknown...) {
		if first == nil {
			first = v
		}
		fmt.Fprintf(&sb, "\n--- path %s: solver status %s (%s)\n", v.O.Path, v.Result.Status, v.Result.Solver)
		for k, st := range v.Result.PerSolver {
			fmt.Fprintf(&sb, "    %s: %s\n", k, st)
		}
	}
	if first != nil {
		model := modelOf(first)
		fmt.Fprintf(&sb, "\n--- solver model (first failing path)\n%s\n", model)
		qp := filepath.Join(dir, safe+".smt2")
		os.WriteFile(qp, []byte(first.Query), 0o644)
		fmt.Fprintf(&sb, "\nquery: %s\n", qp)
		if r := c.tryReplay(ns, first, model, dir, safe); r != "" {
			fmt.Fprintf(&sb, "\n--- replay against the real code\n%s\n", r)
			found = strings.Contains(r, "REPLAY-CONFIRMED")
		}
	}
	if ns.Kind == "cover" || ns.Kind == "canary" {
		fmt.Fprintf(&sb, "\nvacuity: this obligation must be refutable; it was proved, so a precondition, invariant or trusted contract is contradictory\n")
	}
	os.WriteFile(p, []byte(sb.String()), 0o644)
	c.violation(ns.Name, p, found)
}

var modelLine = regexp.MustCompile(`\(define-fun\s+(\S+)\s+\(\)\s+(\(_ BitVec \d+\)|Bool)\s+([^\s\)]+)\)`)

// modelOf re-runs a failing query with model production and returns the scalar part of the model.
func modelOf(v *Verdict) string {
	if v.Result.Status != "sat" {
		return "(no model: solver answered " + v.Result.Status + ")"
	}
	q := "(set-option :produce-models true)\n" + strings.Replace(v.Query, "(check-sat)", "(check-sat)\n(get-model)", 1)
	r := runSolvers(q, 20, false, "z3-new")
	if r.Status != "sat" {
		r = runSolvers(q, 20, false, "cvc5")
	}
	if r.Status != "sat" {
		return "(model extraction failed: " + r.Status + ")"
	}
	out := strings.ReplaceAll(r.Output, "\n   ", " ")
	out = strings.ReplaceAll(out, "\n    ", " ")
	var lines []string
	for _, m := range modelLine.FindAllStringSubmatch(out, -1) {
		lines = append(lines, m[1]+" = "+m[3])
	}
	sort.Strings(lines)
	if len(lines) == 0 {
		if len(r.Output) > 4000 {
			return r.Output[:4000]
		}
		return r.Output
	}
	return strings.Join(lines, "\n")
}

func (c *checkCtx) runExtras(cov map[string]interface{}) int {
	return runExtras(c, cov)
}

func numCPU() int { return runtime.NumCPU() }
