package main

// Support for the generated enum text methods (C19): lists of strings with guarded elements, if-conversion of
// speculatable triangles, guarded iteration over such lists, constant package-level maps, and the trusted
// models of strconv.Itoa/Atoi and strings.Join/Split.

import (
	"go/ast"
	"go/constant"
	"go/token"
	"go/types"
	"strconv"
	"strings"

	"golang.org/x/tools/go/ssa"
)

// ListV: a slice of non-scalar elements built by append, whose elements may be present conditionally.
type ListV struct {
	Items []ListItem
	Elem  types.Type
}

type ListItem struct {
	Guard *Term
	Val   Value
}

// JoinInfo: the abstract value strings.Join(items, sep).
type JoinInfo struct {
	Items []ListItem
	Sep   string
}

func (s *State) itemsOf(v Value) ([]ListItem, bool) {
	switch x := v.(type) {
	case *ListV:
		return x.Items, true
	case *SliceV:
		if x.Obj == nil && x.lazy == nil {
			return nil, true
		}
		if !x.Len.IsConst() || !x.Off.IsConst() {
			return nil, false
		}
		av, ok := s.contents(x.object()).(*ArrayV)
		if !ok || av.Arr != nil {
			return nil, false
		}
		var out []ListItem
		for i := uint64(0); i < x.Len.Val; i++ {
			k := x.Off.Val + i
			if k >= uint64(len(av.Vals)) {
				return nil, false
			}
			out = append(out, ListItem{Guard: True, Val: av.Vals[k]})
		}
		return out, true
	}
	return nil, false
}

func (s *State) mergeLists(c *Term, a, b *ListV) Value {
	// one must extend the other
	pre := func(x, y []ListItem) bool {
		if len(x) > len(y) {
			return false
		}
		for i := range x {
			if x[i].Guard != y[i].Guard || x[i].Val != y[i].Val {
				return false
			}
		}
		return true
	}
	switch {
	case pre(b.Items, a.Items):
		out := append([]ListItem{}, b.Items...)
		for _, it := range a.Items[len(b.Items):] {
			out = append(out, ListItem{Guard: And(c, it.Guard), Val: it.Val})
		}
		return &ListV{Items: out, Elem: a.Elem}
	case pre(a.Items, b.Items):
		out := append([]ListItem{}, a.Items...)
		for _, it := range b.Items[len(a.Items):] {
			out = append(out, ListItem{Guard: And(Not(c), it.Guard), Val: it.Val})
		}
		return &ListV{Items: out, Elem: a.Elem}
	}
	unsup("cannot merge two lists that do not extend each other")
	return nil
}

// ---- speculatable triangles ------------------------------------------------------------

func speculatable(b *ssa.BasicBlock) bool {
	for _, in := range b.Instrs {
		switch x := in.(type) {
		case *ssa.BinOp, *ssa.UnOp, *ssa.Convert, *ssa.ChangeType, *ssa.Lookup, *ssa.IndexAddr, *ssa.Slice, *ssa.Extract,
			*ssa.MakeInterface, *ssa.Jump, *ssa.DebugRef, *ssa.Field, *ssa.FieldAddr, *ssa.Index:
			if u, ok := in.(*ssa.UnOp); ok && u.Op == token.ARROW {
				return false
			}
		case *ssa.Alloc:
		case *ssa.Store:
			// only into memory allocated in this block
			ok := false
			switch a := x.Addr.(type) {
			case *ssa.Alloc:
				ok = a.Block() == b
			case *ssa.IndexAddr:
				if al, isA := a.X.(*ssa.Alloc); isA && al.Block() == b {
					ok = true
				}
			case *ssa.FieldAddr:
				if al, isA := a.X.(*ssa.Alloc); isA && al.Block() == b {
					ok = true
				}
			}
			if !ok {
				return false
			}
		case *ssa.Call:
			bi, ok := x.Call.Value.(*ssa.Builtin)
			if !ok || (bi.Name() != "append" && bi.Name() != "len" && bi.Name() != "cap") {
				return false
			}
		default:
			return false
		}
	}
	return true
}

// defaultStores: the block only stores constants into fields (x.f = const; ...).
func defaultStores(b *ssa.BasicBlock) bool {
	stores := 0
	for _, in := range b.Instrs {
		switch x := in.(type) {
		case *ssa.FieldAddr, *ssa.Jump, *ssa.DebugRef:
		case *ssa.UnOp:
			if x.Op != token.MUL {
				return false
			}
		case *ssa.Store:
			fa, ok := x.Addr.(*ssa.FieldAddr)
			if !ok || fa.Block() != b {
				return false
			}
			if _, ok := x.Val.(*ssa.Const); !ok {
				return false
			}
			if _, scalar := sortOf(x.Val.Type()); !scalar {
				return false
			}
			stores++
		default:
			return false
		}
	}
	return stores > 0
}

// tryTriangle: `if c { then } join` where the then-block can be executed speculatively; returns the join block and
// the merged phi values, or nil.
func (fr *Frame) tryTriangle(b *ssa.BasicBlock, c *Term) (*ssa.BasicBlock, map[*ssa.Phi]Value) {
	if !fr.st.eng.ifConvert {
		return nil, nil
	}
	try := func(then, join *ssa.BasicBlock, cond *Term) (*ssa.BasicBlock, map[*ssa.Phi]Value) {
		if len(then.Preds) != 1 || len(then.Succs) != 1 || then.Succs[0] != join || !(speculatable(then) || defaultStores(then)) {
			return nil, nil
		}
		s := fr.st
		// `if c { x.f = const }` (defaulting of a configuration field): the store becomes x.f = ite(c, const, x.f)
		if defaultStores(then) {
			hasPhi := false
			for _, in := range join.Instrs {
				if _, ok := in.(*ssa.Phi); ok {
					hasPhi = true
				}
			}
			if !hasPhi {
				n := len(s.pc)
				s.pc = append(s.pc, cond)
				saved := s.storeGuard
				s.storeGuard = cond
				for _, in := range then.Instrs {
					if _, ok := in.(*ssa.Jump); ok {
						continue
					}
					fr.exec(in)
				}
				s.storeGuard = saved
				s.pc = s.pc[:n]
				return join, map[*ssa.Phi]Value{}
			}
		}
		if !speculatable(then) {
			return nil, nil
		}
		// only worth it when the join merges a list (otherwise forking is fine and keeps terms simpler)
		hasList := false
		for _, in := range join.Instrs {
			if phi, ok := in.(*ssa.Phi); ok {
				if sl, ok := phi.Type().Underlying().(*types.Slice); ok {
					if _, sc := sortOf(sl.Elem()); !sc {
						hasList = true
					}
				}
			}
		}
		if !hasList && !(s.mergeScalars && pureScalarBlock(then) && scalarPhis(join)) {
			return nil, nil
		}
		n := len(s.pc)
		s.pc = append(s.pc, cond)
		for _, in := range then.Instrs {
			if _, ok := in.(*ssa.Jump); ok {
				continue
			}
			fr.exec(in)
		}
		s.pc = s.pc[:n]
		merged := map[*ssa.Phi]Value{}
		for _, in := range join.Instrs {
			phi, ok := in.(*ssa.Phi)
			if !ok {
				continue
			}
			var tv, ev Value
			for i, p := range join.Preds {
				if p == then {
					tv = fr.get(phi.Edges[i])
				}
				if p == b {
					ev = fr.get(phi.Edges[i])
				}
			}
			merged[phi] = s.iteValue(cond, tv, ev)
		}
		return join, merged
	}
	if j, m := try(b.Succs[0], b.Succs[1], c); j != nil {
		return j, m
	}
	if j, m := try(b.Succs[1], b.Succs[0], Not(c)); j != nil {
		return j, m
	}
	// diamond: `if c { A } else { B }; join` with A and B pure scalar blocks
	s := fr.st
	A, B := b.Succs[0], b.Succs[1]
	if s.mergeScalars && len(A.Preds) == 1 && len(B.Preds) == 1 && len(A.Succs) == 1 && len(B.Succs) == 1 && A.Succs[0] == B.Succs[0] &&
		pureScalarBlock(A) && pureScalarBlock(B) && scalarPhis(A.Succs[0]) && len(A.Succs[0].Preds) == 2 {
		join := A.Succs[0]
		run := func(blk *ssa.BasicBlock, cond *Term) {
			n := len(s.pc)
			s.pc = append(s.pc, cond)
			for _, in := range blk.Instrs {
				if _, ok := in.(*ssa.Jump); ok {
					continue
				}
				fr.exec(in)
			}
			s.pc = s.pc[:n]
		}
		run(A, c)
		run(B, Not(c))
		merged := map[*ssa.Phi]Value{}
		for _, in := range join.Instrs {
			phi, ok := in.(*ssa.Phi)
			if !ok {
				continue
			}
			var av, bv Value
			for i, p := range join.Preds {
				if p == A {
					av = fr.get(phi.Edges[i])
				}
				if p == B {
					bv = fr.get(phi.Edges[i])
				}
			}
			merged[phi] = s.iteValue(c, av, bv)
		}
		return join, merged
	}
	return nil, nil
}

// pureScalarBlock: only side-effect-free scalar computations (no loads, stores, calls).
func pureScalarBlock(b *ssa.BasicBlock) bool {
	if len(b.Instrs) > 12 {
		return false
	}
	for _, in := range b.Instrs {
		switch x := in.(type) {
		case *ssa.BinOp:
			if x.Op == token.QUO || x.Op == token.REM || x.Op == token.SHL || x.Op == token.SHR {
				return false // may carry safety obligations
			}
		case *ssa.Convert, *ssa.ChangeType, *ssa.Jump, *ssa.DebugRef:
		case *ssa.Lookup:
			if _, isMap := x.X.Type().Underlying().(*types.Map); !isMap {
				return false
			}
		case *ssa.UnOp:
			if x.Op == token.MUL || x.Op == token.ARROW {
				g, ok := x.X.(*ssa.Global)
				if !ok || x.Op != token.MUL {
					return false
				}
				_ = g // load of a package-level variable (constant tables)
			}
		default:
			return false
		}
	}
	return true
}

func scalarPhis(join *ssa.BasicBlock) bool {
	for _, in := range join.Instrs {
		if phi, ok := in.(*ssa.Phi); ok {
			if _, sc := sortOf(phi.Type()); !sc {
				return false
			}
		}
	}
	return true
}

// ---- guarded iteration over a list ---------------------------------------------------------

type bodyReturned struct{ vals []Value }

// rangeOverList recognises `for _, x := range list` (rangeindex loop) where list is a ListV and runs it item by
// item: an item that may be absent contributes ite(guard, after, before) to the loop-carried values.  Returns the
// block to continue with (the loop exit) or nil when the header is not such a loop.
func (fr *Frame) rangeOverList(b, prev *ssa.BasicBlock) (*ssa.BasicBlock, *bodyReturned) {
	s := fr.st
	if b.Comment != "rangeindex.loop" || len(b.Succs) != 2 {
		return nil, nil
	}
	// find the index phi, the compared length and the list
	var idxPhi *ssa.Phi
	var carried []*ssa.Phi
	for _, in := range b.Instrs {
		if phi, ok := in.(*ssa.Phi); ok {
			if phi.Comment == "rangeindex" {
				idxPhi = phi
			} else {
				carried = append(carried, phi)
			}
		}
	}
	if idxPhi == nil {
		return nil, nil
	}
	var lst *ListV
	var lenVal ssa.Value
	for _, in := range b.Instrs {
		if bo, ok := in.(*ssa.BinOp); ok && bo.Op == token.LSS {
			if c, ok := bo.Y.(*ssa.Call); ok {
				if bi, ok := c.Call.Value.(*ssa.Builtin); ok && bi.Name() == "len" {
					if l, ok := fr.env[c.Call.Args[0]].(*ListV); ok {
						lst, lenVal = l, bo.Y
					}
				}
			}
		}
	}
	if lst == nil {
		return nil, nil
	}
	_ = lenVal
	body, done := b.Succs[0], b.Succs[1]
	// initial values of the carried phis from the entry edge
	for _, phi := range carried {
		fr.env[phi] = fr.phiValue(phi, b, prev)
	}
	// find the element load in the body: &list[i]; *that
	for k, it := range lst.Items {
		if it.Guard.IsFalse() {
			continue
		}
		before := map[*ssa.Phi]Value{}
		for _, phi := range carried {
			before[phi] = fr.env[phi]
		}
		run := func() (after map[*ssa.Phi]Value, ret *bodyReturned) {
			fr.env[idxPhi] = Const(64, uint64(int64(k-1)))
			for _, in := range b.Instrs {
				switch in.(type) {
				case *ssa.Phi, *ssa.If, *ssa.Jump:
				default:
					fr.exec(in)
				}
			}
			fr.listItem = &it
			defer func() { fr.listItem = nil }()
			from := fr.runRegion(body, b, b)
			if from.ret != nil {
				return nil, from.ret
			}
			after = map[*ssa.Phi]Value{}
			for _, phi := range carried {
				for i, p := range b.Preds {
					if p == from.last {
						after[phi] = fr.get(phi.Edges[i])
					}
				}
			}
			return after, nil
		}
		if it.Guard.IsTrue() {
			after, ret := run()
			if ret != nil {
				return nil, ret
			}
			for phi, v := range after {
				fr.env[phi] = v
			}
			continue
		}
		// probe: does the body return for this item?
		snap := s.saveForProbe()
		n := len(s.pc)
		s.pc = append(s.pc, it.Guard)
		s.probing++
		_, probeRet := run()
		s.probing--
		s.restoreProbe(snap)
		var after map[*ssa.Phi]Value
		var ret *bodyReturned
		if probeRet == nil {
			s.pc = append(s.pc, it.Guard)
			after, ret = run()
			s.pc = s.pc[:n]
		} else {
			ret = probeRet
		}
		if ret != nil {
			if s.decide(2, "guarded-item-returns") == 0 {
				s.assume(it.Guard)
				_, ret2 := run()
				if ret2 == nil {
					unsup("guarded iteration: body returned in the probe but not in the run")
				}
				return nil, ret2
			}
			s.assume(Not(it.Guard))
			for _, phi := range carried {
				fr.env[phi] = before[phi]
			}
			continue
		}
		for phi, v := range after {
			fr.env[phi] = s.iteValue(it.Guard, v, before[phi])
		}
	}
	return done, nil
}

type regionEnd struct {
	last *ssa.BasicBlock
	ret  *bodyReturned
}

// runRegion executes blocks starting at `start` (entered from `from`) until control reaches `stop`.
func (fr *Frame) runRegion(start, from, stop *ssa.BasicBlock) regionEnd {
	s := fr.st
	prev, b := from, start
	for steps := 0; steps < 10000; steps++ {
		if b == stop {
			return regionEnd{last: prev}
		}
		for _, in := range b.Instrs {
			if phi, ok := in.(*ssa.Phi); ok {
				fr.env[phi] = fr.phiValue(phi, b, prev)
			}
		}
		var next *ssa.BasicBlock
		for _, in := range b.Instrs {
			switch x := in.(type) {
			case *ssa.Phi:
			case *ssa.If:
				c := asTerm(fr.get(x.Cond))
				switch {
				case c.IsTrue():
					next = b.Succs[0]
				case c.IsFalse():
					next = b.Succs[1]
				default:
					if s.decide(2, "if") == 0 {
						s.assume(c)
						next = b.Succs[0]
					} else {
						s.assume(Not(c))
						next = b.Succs[1]
					}
				}
			case *ssa.Jump:
				next = b.Succs[0]
			case *ssa.Return:
				var res []Value
				for _, r := range x.Results {
					res = append(res, fr.get(r))
				}
				return regionEnd{ret: &bodyReturned{vals: res}}
			case *ssa.Panic:
				s.check("safety:panic@"+fr.loc(in), False)
				panic(pathEnd{"panic"})
			default:
				fr.exec(in)
			}
		}
		prev, b = b, next
	}
	unsup("region does not terminate")
	return regionEnd{}
}

type probeSnap struct {
	heap  map[int]Value
	nobj  int
	npc   int
	nlog  int
	nobl  int
	dpos  int
	nalts int
	fresh map[string]int
}

func (s *State) saveForProbe() *probeSnap {
	h := make(map[int]Value, len(s.heap))
	for k, v := range s.heap {
		h[k] = v
	}
	f := make(map[string]int, len(s.fresh))
	for k, v := range s.fresh {
		f[k] = v
	}
	return &probeSnap{heap: h, nobj: s.nobj, npc: len(s.pc), nlog: len(s.log), nobl: len(s.obls), dpos: s.dpos, nalts: len(s.newAlts), fresh: f}
}

func (s *State) restoreProbe(p *probeSnap) {
	s.heap = p.heap // object ids stay monotonic: objects created in the probe (e.g. globals) keep their identity
	s.pc, s.log, s.obls = s.pc[:p.npc], s.log[:p.nlog], s.obls[:p.nobl]
	s.fresh = p.fresh
}

// ---- constant package-level maps ---------------------------------------------------------------

type constMap struct {
	keysInt []uint64
	keysStr []string
	valsInt []uint64
	valsStr []string
	keyStr  bool
	valStr  bool
	keyW    int
	valW    int
}

// constMapOf reads `var m = map[K]V{k: v, ...}` with constant keys and values (after checking the variable is never written).
func (e *Engine) constMapOf(g *ssa.Global) *constMap {
	if cm, ok := e.constMaps[g]; ok {
		return cm
	}
	if e.constMaps == nil {
		e.constMaps = map[*ssa.Global]*constMap{}
	}
	e.constMaps[g] = nil
	spec := e.globalSpec(g)
	if spec == nil || !e.globalNeverWritten(g) {
		return nil
	}
	var info *types.Info
	for _, p := range e.loadedPkgs {
		if p.Types == g.Pkg.Pkg {
			info = p.TypesInfo
		}
	}
	for i, n := range spec.Names {
		if n.Name != g.Name() || i >= len(spec.Values) {
			continue
		}
		cl, ok := spec.Values[i].(*ast.CompositeLit)
		if !ok {
			return nil
		}
		mt, ok := info.Types[cl].Type.Underlying().(*types.Map)
		if !ok {
			return nil
		}
		cm := &constMap{}
		_, ks := sortOf(mt.Key())
		_, vs := sortOf(mt.Elem())
		cm.keyStr, cm.valStr = !ks, !vs
		if so, ok := sortOf(mt.Key()); ok {
			cm.keyW = so.W
		}
		if so, ok := sortOf(mt.Elem()); ok {
			cm.valW = so.W
		}
		for _, el := range cl.Elts {
			kv, ok := el.(*ast.KeyValueExpr)
			if !ok {
				return nil
			}
			ktv, vtv := info.Types[kv.Key], info.Types[kv.Value]
			if ktv.Value == nil || vtv.Value == nil {
				return nil
			}
			if cm.keyStr {
				cm.keysStr = append(cm.keysStr, constant.StringVal(ktv.Value))
			} else {
				u, _ := constant.Uint64Val(constant.ToInt(ktv.Value))
				cm.keysInt = append(cm.keysInt, u)
			}
			if cm.valStr {
				cm.valsStr = append(cm.valsStr, constant.StringVal(vtv.Value))
			} else {
				u, _ := constant.Uint64Val(constant.ToInt(vtv.Value))
				cm.valsInt = append(cm.valsInt, u)
			}
		}
		e.constMaps[g] = cm
		return cm
	}
	return nil
}

// ConstMapV: value of a constant map global.
type ConstMapV struct {
	M    *constMap
	Name string
	T    *types.Map
}

func (s *State) constMapLookup(m *ConstMapV, key Value, commaOk bool, where string) Value {
	cm := m.M
	zero := s.zeroValue(m.T.Elem())
	ret := func(v Value, ok *Term) Value {
		if commaOk {
			return &TupleV{Vals: []Value{v, ok}}
		}
		return v
	}
	valAt := func(i int) Value {
		if cm.valStr {
			return strV(cm.valsStr[i])
		}
		return Const(cm.valW, cm.valsInt[i])
	}
	if cm.keyStr {
		k, ok := key.(*StringV)
		if !ok {
			unsup("constant map lookup with %T key", key)
		}
		if k.Lit != nil {
			for i, ks := range cm.keysStr {
				if ks == *k.Lit {
					return ret(valAt(i), True)
				}
			}
			return ret(zero, False)
		}
		if k.Itoa != nil {
			// side condition (ground obligation enum:<T>:no-numeral-label): no key of the map is a decimal numeral
			for _, ks := range cm.keysStr {
				if isNumeral(ks) {
					unsup("map %s has the numeral key %q: lookup of an Itoa string is undecided", m.Name, ks)
				}
			}
			return ret(zero, False)
		}
		if !cm.valStr {
			// symbolic string key, scalar values: an ite chain over the keys (no forking; usable in specifications)
			var v *Term = asTerm(zero)
			found := False
			for i := len(cm.keysStr) - 1; i >= 0; i-- {
				eq := s.stringEq(k, strV(cm.keysStr[i]))
				v = Ite(eq, Const(cm.valW, cm.valsInt[i]), v)
				found = Or(found, eq)
			}
			return ret(v, found)
		}
		unsup("constant map %s looked up with a string that is neither a literal nor an Itoa result", m.Name)
	}
	if _, isStr := key.(*StringV); isStr {
		unsup("constant map %s (keyStr=%v, %d int keys, %d str keys) looked up with a string", m.Name, cm.keyStr, len(cm.keysInt), len(cm.keysStr))
	}
	kt := asTerm(key)
	if kt.IsConst() {
		for i, kv := range cm.keysInt {
			if kv == kt.Val {
				return ret(valAt(i), True)
			}
		}
		return ret(zero, False)
	}
	if !cm.valStr {
		// scalar values: an ite chain over the keys
		var v *Term = asTerm(zero)
		found := False
		for i := len(cm.keysInt) - 1; i >= 0; i-- {
			eq := Eq(kt, Const(cm.keyW, cm.keysInt[i]))
			v = Ite(eq, Const(cm.valW, cm.valsInt[i]), v)
			found = Or(found, eq)
		}
		return ret(v, found)
	}
	// symbolic key: case split over the entries (and "none of them")
	n := len(cm.keysInt)
	d := s.decide(n+1, "constmap:"+m.Name)
	if d < n {
		s.assume(Eq(kt, Const(cm.keyW, cm.keysInt[d])))
		return ret(valAt(d), True)
	}
	for _, kv := range cm.keysInt {
		s.assume(Ne(kt, Const(cm.keyW, kv)))
	}
	return ret(zero, False)
}

func isNumeral(x string) bool {
	_, err := strconv.Atoi(x)
	return err == nil
}

// ---- strings / strconv models ---------------------------------------------------------------------

func registerEnumModels() {
	libTable["strconv.Itoa"] = func(s *State, fn *ssa.Function, args []Value, where string) []Value {
		t := asTerm(args[0])
		if t.IsConst() {
			return []Value{strV(strconv.Itoa(int(int64(t.Val))))}
		}
		l := s.freshVar("itoa.len", BV(64))
		s.assume(CmpBV("bvsle", Const(64, 1), l))
		s.assume(CmpBV("bvsle", l, Const(64, 20)))
		return []Value{&StringV{Arr: &ArrVar{Name: s.freshName("itoa"), W: 8}, Len: l, Itoa: t}}
	}
	libTable["strconv.Atoi"] = func(s *State, fn *ssa.Function, args []Value, where string) []Value {
		x := args[0].(*StringV)
		if x.Itoa != nil {
			// trusted: Atoi(Itoa(v)) == v, nil
			return []Value{x.Itoa, s.zeroValue(errorType())}
		}
		if x.Lit != nil {
			v, err := strconv.Atoi(*x.Lit)
			if err != nil {
				return []Value{Const(64, 0), s.opaqueErr("strconv.NumError")}
			}
			return []Value{Const(64, uint64(int64(v))), s.zeroValue(errorType())}
		}
		if x.ID != nil {
			// a string with identity: Atoi is a function of it (code and specification see the same number)
			errT := App("atoi_errtype", BV(32), x.ID)
			return []Value{App("atoi_val", BV(64), x.ID), &IfaceV{Type: errT, Handle: App("atoi_errh", BV(64), x.ID), Static: errorType(), alts: map[int]Value{}}}
		}
		return []Value{s.freshVar("atoi", BV(64)), s.symValue(errorType(), "atoi.err")}
	}
	libTable["strings.Join"] = func(s *State, fn *ssa.Function, args []Value, where string) []Value {
		items, ok := s.itemsOf(args[0])
		sep := args[1].(*StringV)
		if !ok || sep.Lit == nil {
			unsup("strings.Join of %T", args[0])
		}
		all := true
		var parts []string
		for _, it := range items {
			sv, isS := it.Val.(*StringV)
			if !it.Guard.IsTrue() || !isS || sv.Lit == nil {
				all = false
				break
			}
			parts = append(parts, *sv.Lit)
		}
		if all {
			return []Value{strV(strings.Join(parts, *sep.Lit))}
		}
		l := s.freshVar("join.len", BV(64))
		s.lenAssume(l)
		return []Value{&StringV{Arr: &ArrVar{Name: s.freshName("join"), W: 8}, Len: l, Join: &JoinInfo{Items: items, Sep: *sep.Lit}}}
	}
	libTable["strings.Split"] = func(s *State, fn *ssa.Function, args []Value, where string) []Value {
		x := args[0].(*StringV)
		sep := args[1].(*StringV)
		et := fn.Signature.Results().At(0).Type().Underlying().(*types.Slice).Elem()
		if sep.Lit == nil {
			unsup("strings.Split with a symbolic separator")
		}
		switch {
		case x.Lit != nil:
			var items []ListItem
			for _, p := range strings.Split(*x.Lit, *sep.Lit) {
				items = append(items, ListItem{Guard: True, Val: strV(p)})
			}
			return []Value{&ListV{Items: items, Elem: et}}
		case x.Itoa != nil:
			// a decimal numeral contains no separator
			return []Value{&ListV{Items: []ListItem{{Guard: True, Val: x}}, Elem: et}}
		case x.Join != nil && x.Join.Sep == *sep.Lit:
			// trusted: Split(Join(xs, sep), sep) == xs when xs is non-empty and no element is empty or contains sep;
			// Split("", sep) == [""]
			var items []ListItem
			var any []*Term
			for _, it := range x.Join.Items {
				sv, ok := it.Val.(*StringV)
				if !ok {
					unsup("strings.Split of a join of non-strings")
				}
				if sv.Lit != nil {
					if strings.Contains(*sv.Lit, *sep.Lit) {
						unsup("an element of the joined list contains the separator: Split(Join(..)) is not the identity")
					}
					if *sv.Lit == "" {
						// an empty element is indistinguishable from a missing one only when it stands alone; keep it
					}
				} else if sv.Itoa == nil {
					unsup("strings.Split of a join with a symbolic element")
				}
				items = append(items, it)
				any = append(any, it.Guard)
			}
			items = append(items, ListItem{Guard: Not(Or(any...)), Val: strV("")})
			return []Value{&ListV{Items: items, Elem: et}}
		}
		unsup("strings.Split of a symbolic string")
		return nil
	}
}
