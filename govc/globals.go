package main

import (
	"go/ast"
	"go/types"

	"golang.org/x/tools/go/ssa"
)

// globalInit gives package-level variables their initial value when the
// initialiser is one the engine understands and the variable is never
// assigned outside its declaration (checked over the package SSA).
func (e *Engine) globalInit(s *State, g *ssa.Global) Value {
	if g.Pkg == nil {
		return nil
	}
	// find declaration syntax
	spec := e.globalSpec(g)
	if spec == nil {
		return nil
	}
	if !e.globalNeverWritten(g) {
		return nil
	}
	if mt, ok := g.Type().(*types.Pointer).Elem().Underlying().(*types.Map); ok {
		if cm := e.constMapOf(g); cm != nil {
			return &ConstMapV{M: cm, Name: g.Name(), T: mt}
		}
	}
	for i, n := range spec.Names {
		if n.Name != g.Name() || i >= len(spec.Values) {
			continue
		}
		// var errX = errors.New("...") / fmt.Errorf("..."): a sentinel error, never reassigned: some non-nil error value
		if call, ok := spec.Values[i].(*ast.CallExpr); ok {
			if sel, ok := call.Fun.(*ast.SelectorExpr); ok {
				if id, ok := sel.X.(*ast.Ident); ok && ((id.Name == "errors" && sel.Sel.Name == "New") || (id.Name == "fmt" && sel.Sel.Name == "Errorf")) {
					et := g.Type().(*types.Pointer).Elem()
					if isErrorType(et) {
						v := s.symValue(et, "global."+g.Name())
						if iv, ok := v.(*IfaceV); ok {
							s.assume(Ne(iv.Type, Const(32, 0)))
							return iv
						}
					}
				}
			}
		}
		// time.Date(2015, 1, 1, 0, 0, 0, 0, time.UTC)
		if call, ok := spec.Values[i].(*ast.CallExpr); ok {
			if sel, ok := call.Fun.(*ast.SelectorExpr); ok && sel.Sel.Name == "Date" {
				if id, ok := sel.X.(*ast.Ident); ok && id.Name == "time" && len(call.Args) == 8 {
					lit := e.timeDateLiteral(g, call)
					if lit != "" {
						return &OpaqueV{Kind: "time.Time", T: App("time_literal_"+sanitize(lit), USort("Time")), Aux: map[string]Value{"literal": &StringV{Lit: &lit, Len: Const(64, uint64(len(lit))), Arr: &ArrBytes{B: []byte(lit)}}}}
					}
				}
			}
		}
	}
	return nil
}

func sanitize(s string) string {
	b := []byte(s)
	for i, c := range b {
		if !((c >= '0' && c <= '9') || (c >= 'a' && c <= 'z') || (c >= 'A' && c <= 'Z')) {
			b[i] = '_'
		}
	}
	return string(b)
}

func (e *Engine) globalSpec(g *ssa.Global) *ast.ValueSpec {
	for _, p := range e.loadedPkgs {
		if p.Types != g.Pkg.Pkg {
			continue
		}
		for _, f := range p.Syntax {
			for _, d := range f.Decls {
				gd, ok := d.(*ast.GenDecl)
				if !ok {
					continue
				}
				for _, sp := range gd.Specs {
					vs, ok := sp.(*ast.ValueSpec)
					if !ok {
						continue
					}
					for _, n := range vs.Names {
						if n.Name == g.Name() && p.TypesInfo.Defs[n] == g.Object() {
							return vs
						}
					}
				}
			}
		}
	}
	return nil
}

func (e *Engine) globalNeverWritten(g *ssa.Global) bool {
	if v, ok := e.neverWritten[g]; ok {
		return v
	}
	res := true
	for _, m := range g.Pkg.Members {
		fn, ok := m.(*ssa.Function)
		if !ok {
			continue
		}
		if fn.Name() == "init" {
			continue
		}
		if writesGlobal(fn, g) {
			res = false
		}
	}
	// methods
	for _, m := range g.Pkg.Members {
		if t, ok := m.(*ssa.Type); ok {
			for _, recv := range []types.Type{t.Type(), types.NewPointer(t.Type())} {
				ms := e.prog.MethodSets.MethodSet(recv)
				for i := 0; i < ms.Len(); i++ {
					if fn := e.prog.MethodValue(ms.At(i)); fn != nil && fn.Pkg == g.Pkg && writesGlobal(fn, g) {
						res = false
					}
				}
			}
		}
	}
	if e.neverWritten == nil {
		e.neverWritten = map[*ssa.Global]bool{}
	}
	e.neverWritten[g] = res
	return res
}

func writesGlobal(fn *ssa.Function, g *ssa.Global) bool {
	found := false
	var visit func(f *ssa.Function)
	visit = func(f *ssa.Function) {
		for _, b := range f.Blocks {
			for _, in := range b.Instrs {
				// any use of the global's address other than a load counts as a possible write
				for _, op := range in.Operands(nil) {
					if *op == ssa.Value(g) {
						if u, ok := in.(*ssa.UnOp); ok && u.X == ssa.Value(g) {
							continue
						}
						found = true
					}
				}
			}
		}
		for _, a := range f.AnonFuncs {
			visit(a)
		}
	}
	visit(fn)
	return found
}

// timeDateLiteral evaluates the constant arguments of a time.Date call into an RFC3339 string (UTC only).
func (e *Engine) timeDateLiteral(g *ssa.Global, call *ast.CallExpr) string {
	var info *types.Info
	for _, p := range e.loadedPkgs {
		if p.Types == g.Pkg.Pkg {
			info = p.TypesInfo
		}
	}
	if info == nil {
		return ""
	}
	var v [7]int64
	for i := 0; i < 7; i++ {
		tv, ok := info.Types[call.Args[i]]
		if !ok || tv.Value == nil {
			return ""
		}
		x, ok := constInt(tv)
		if !ok {
			return ""
		}
		v[i] = x
	}
	if sel, ok := call.Args[7].(*ast.SelectorExpr); !ok || sel.Sel.Name != "UTC" {
		return ""
	}
	return fmtDate(v)
}

func constInt(tv types.TypeAndValue) (int64, bool) {
	return constantInt64(tv.Value)
}
