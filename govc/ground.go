package main

func runGround(c *checkCtx, cov map[string]interface{}) int { return 0 }
