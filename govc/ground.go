package main

// Ground obligations (C17): closed formulas over constants read from the program (go/types + go/ssa of the 19
// dialect packages), discharged by the solvers like any other obligation.

import (
	"fmt"
	"go/ast"
	"go/types"
	"os"
	"path/filepath"
	"reflect"
	"sort"
	"strconv"
	"strings"

	"golang.org/x/tools/go/packages"
	"golang.org/x/tools/go/ssa"
)

func runGround(c *checkCtx, cov map[string]interface{}) int {
	want := false
	for _, g := range c.conf.Ground {
		if g == "dialects" {
			want = true
		}
	}
	if !want {
		return 0
	}
	ents, err := os.ReadDir(filepath.Join(repoDir, "pkg/dialects"))
	if err != nil {
		return 0
	}
	var rels []string
	for _, e := range ents {
		if e.IsDir() {
			rels = append(rels, "pkg/dialects/"+e.Name())
		}
	}
	sort.Strings(rels)
	ld, err := load(repoDir, rels, filepath.Join(verifDir, "spec"))
	if err != nil {
		p := filepath.Join(c.outDir, "ground-load-error.txt")
		os.WriteFile(p, []byte("obligation: bind:ground:load\n\n"+err.Error()+"\n"), 0o644)
		c.violation("bind:ground:load", p, false)
		return 1
	}
	var obls []*Obligation
	add := func(name string, goal *Term, info string) {
		obls = append(obls, &Obligation{Name: "ground:" + name, Kind: "ground", Func: "ground", Goal: goal, Expect: "unsat", Info: map[string]string{"detail": info}})
	}
	type msgUse struct {
		dialect string
		t       types.Type
	}
	byName := map[string][]msgUse{}
	enumVals := map[string]map[string]string{} // const name -> value -> package
	structs := map[string]*types.Named{}
	nMsgs := 0
	for _, rel := range rels {
		dn := filepath.Base(rel)
		sp := ld.eng.pkgs[relToImport(rel)]
		var pk = findLoaded(ld, relToImport(rel))
		if sp == nil || pk == nil {
			add("dialect-loaded:"+dn, False, "package not loaded")
			continue
		}
		// the Messages list of the dialect literal
		var elems []ast.Expr
		for _, f := range pk.Syntax {
			ast.Inspect(f, func(n ast.Node) bool {
				kv, ok := n.(*ast.KeyValueExpr)
				if !ok {
					return true
				}
				if id, ok := kv.Key.(*ast.Ident); ok && id.Name == "Messages" {
					if cl, ok := kv.Value.(*ast.CompositeLit); ok {
						elems = cl.Elts
					}
				}
				return true
			})
		}
		if len(elems) == 0 {
			add("dialect-messages-literal:"+dn, False, "Messages literal not found")
			continue
		}
		var ids []*Term
		var idInfo []string
		for _, el := range elems {
			tv, ok := pk.TypesInfo.Types[el]
			if !ok {
				continue
			}
			pt, ok := tv.Type.(*types.Pointer)
			if !ok {
				add("dialect-message-shape:"+dn, False, "element is not &Message{}")
				continue
			}
			nMsgs++
			fn := ld.eng.prog.LookupMethod(pt, nil, "GetID")
			id, ok := constReturn(fn)
			nm := types.TypeString(pt.Elem(), func(p *types.Package) string { return "" })
			nm = strings.TrimPrefix(nm, ".")
			if !ok {
				add("getid-const:"+dn+"."+nm, False, "GetID does not return a constant")
				continue
			}
			ids = append(ids, Const(32, id))
			idInfo = append(idInfo, fmt.Sprintf("%s=%d", nm, id))
			byName[nm] = append(byName[nm], msgUse{dn, pt.Elem()})
			if named, ok := types.Unalias(pt.Elem()).(*types.Named); ok {
				structs[named.Obj().Pkg().Name()+"."+named.Obj().Name()] = named
			}
		}
		// ids pairwise distinct within the dialect
		var ne []*Term
		for i := 0; i < len(ids); i++ {
			for j := i + 1; j < len(ids); j++ {
				ne = append(ne, Ne(ids[i], ids[j]))
			}
		}
		add("ids-unique:"+dn, And(ne...), fmt.Sprintf("%d messages", len(ids)))
		// enum constants declared in this package
		scope := pk.Types.Scope()
		for _, n := range scope.Names() {
			cn, ok := scope.Lookup(n).(*types.Const)
			if !ok {
				continue
			}
			named, ok := types.Unalias(cn.Type()).(*types.Named)
			if !ok {
				continue
			}
			if b, ok := named.Underlying().(*types.Basic); !ok || b.Kind() != types.Uint64 {
				continue
			}
			if enumVals[n] == nil {
				enumVals[n] = map[string]string{}
			}
			enumVals[n][cn.Val().ExactString()] = dn
		}
	}
	// a message included from another dialect is the very same Go type
	var names []string
	for n := range byName {
		names = append(names, n)
	}
	sort.Strings(names)
	shared := 0
	for _, n := range names {
		us := byName[n]
		if len(us) < 2 {
			continue
		}
		shared++
		same := true
		for _, u := range us[1:] {
			if !types.Identical(us[0].t, u.t) {
				same = false
			}
		}
		if !same {
			add("same-type-across-dialects:"+n, False, "message "+n+" is a different Go type in two dialects")
		}
	}
	add("same-type-across-dialects", BoolConst(true), fmt.Sprintf("%d message names shared between dialects", shared))
	// an enum constant has one value wherever it is defined
	nShared := 0
	for n, vs := range enumVals {
		if len(vs) > 1 {
			var parts []string
			for v, d := range vs {
				parts = append(parts, d+"="+v)
			}
			sort.Strings(parts)
			add("enum-constant-one-value:"+n, False, strings.Join(parts, " "))
		}
		nShared++
	}
	add("enum-constant-one-value", BoolConst(true), fmt.Sprintf("%d constant names", nShared))
	// every message fits the payload limit (independent size computation from go/types)
	var snames []string
	for n := range structs {
		snames = append(snames, n)
	}
	sort.Strings(snames)
	for _, n := range snames {
		sz, err := wireSize(structs[n])
		if err != nil {
			add("wire-size:"+n, False, err.Error())
			continue
		}
		t := Const(64, uint64(sz))
		add("wire-size:"+n, And(CmpBV("bvule", Const(64, 1), t), CmpBV("bvule", t, Const(64, 255))), fmt.Sprintf("%d bytes", sz))
	}
	vs := discharge(obls, dischargeOpts{timeoutS: 20, workers: (numCPU() + 1) / 2})
	sums := summarize(vs)
	nOb, nDis := 0, 0
	var failed []string
	for _, ns := range sums {
		nOb++
		if len(ns.Failed) == 0 && len(ns.Unknown) == 0 {
			nDis++
			continue
		}
		failed = append(failed, ns.Name)
		p := filepath.Join(c.outDir, "ground-"+strings.NewReplacer(":", "_", "/", "_", "*", "P").Replace(ns.Name)+".txt")
		detail := ""
		for _, v := range append(ns.Failed, ns.Unknown...) {
			detail += v.O.Info["detail"] + "\n"
		}
		os.WriteFile(p, []byte("obligation: "+ns.Name+"\nclosed formula over program constants; the constants ARE the failing input:\n"+detail), 0o644)
		c.violation(ns.Name, p, true)
	}
	cov["obligations"] = asInt(cov["obligations"]) + nOb
	cov["discharged"] = asInt(cov["discharged"]) + nDis
	cov["ground"] = map[string]interface{}{"dialect_packages": len(rels), "messages_in_dialect_lists": nMsgs, "distinct_message_structs": len(structs),
		"shared_message_names": shared, "enum_constant_names": nShared, "obligations": nOb, "failed": failed}
	if _, ok := cov["trusted_base"]; !ok {
		cov["trusted_base"] = []string{}
	}
	if len(failed) > 0 {
		return 1
	}
	return 0
}

func findLoaded(ld *Loaded, path string) *loadedPkg {
	for _, p := range ld.eng.loadedPkgs {
		if p.PkgPath == path {
			return p
		}
	}
	return nil
}

// constReturn: the constant returned by a function whose every return returns the same constant.
func constReturn(fn *ssa.Function) (uint64, bool) {
	if fn == nil {
		return 0, false
	}
	// method wrappers: follow the single call
	for depth := 0; depth < 4 && fn != nil; depth++ {
		var val *uint64
		var next *ssa.Function
		for _, b := range fn.Blocks {
			for _, in := range b.Instrs {
				switch x := in.(type) {
				case *ssa.Return:
					if len(x.Results) != 1 {
						return 0, false
					}
					switch r := x.Results[0].(type) {
					case *ssa.Const:
						u := r.Uint64()
						if val != nil && *val != u {
							return 0, false
						}
						val = &u
					case *ssa.Call:
						next = r.Call.StaticCallee()
					default:
						return 0, false
					}
				}
			}
		}
		if val != nil {
			return *val, true
		}
		fn = next
	}
	return 0, false
}

// wireSize: extended payload size of a message struct from its Go definition and tags (independent of pkg/message).
func wireSize(named *types.Named) (int, error) {
	st, ok := named.Underlying().(*types.Struct)
	if !ok {
		return 0, fmt.Errorf("not a struct")
	}
	sizes := map[string]int{"uint8": 1, "int8": 1, "uint16": 2, "int16": 2, "uint32": 4, "int32": 4, "uint64": 8, "int64": 8, "float32": 4, "float64": 8}
	total := 0
	for i := 0; i < st.NumFields(); i++ {
		f := st.Field(i)
		tag := reflect.StructTag(st.Tag(i))
		t := f.Type()
		n := 1
		if at, ok := t.Underlying().(*types.Array); ok {
			n = int(at.Len())
			t = at.Elem()
		}
		if en := tag.Get("mavenum"); en != "" {
			sz, ok := sizes[en]
			if !ok {
				return 0, fmt.Errorf("field %s: bad mavenum %q", f.Name(), en)
			}
			total += sz * n
			continue
		}
		b, ok := t.Underlying().(*types.Basic)
		if !ok {
			return 0, fmt.Errorf("field %s: unsupported type %s", f.Name(), t)
		}
		if b.Kind() == types.String {
			l := 1
			if ml := tag.Get("mavlen"); ml != "" {
				v, err := strconv.Atoi(ml)
				if err != nil {
					return 0, fmt.Errorf("field %s: bad mavlen", f.Name())
				}
				l = v
			}
			total += l
			continue
		}
		sz, ok := sizes[b.Name()]
		if !ok {
			return 0, fmt.Errorf("field %s: unsupported type %s", f.Name(), b.Name())
		}
		total += sz * n
	}
	return total, nil
}

type loadedPkg = packages.Package
