package main

import (
	"crypto/sha1"
	"fmt"
	"os"
	"path/filepath"
	"sort"
	"strings"
	"sync"
	"time"
)

type Verdict struct {
	O        *Obligation
	Status   string // discharged failed unknown vacuous cover-ok canary-ok
	Result   SolverResult
	Query    string
	Count    int // number of path instances merged into this verdict
	QSize    int
	Abstract string
	Retried  bool
}

type dischargeOpts struct {
	timeoutS int
	all      bool
	workers  int
	keepDir  string
}

// discharge solves every obligation (deduplicated by name and query text).
func discharge(obls []*Obligation, opt dischargeOpts) []*Verdict {
	type job struct {
		v *Verdict
	}
	byKey := map[string]*Verdict{}
	var order []*Verdict
	// cover obligations: only a few per function are needed; keep at most 4 per name
	coverCount := map[string]int{}
	for _, o := range obls {
		if o.Kind == "cover" {
			coverCount[o.Name]++
			if coverCount[o.Name] > 4 {
				continue
			}
		}
		var q string
		if o.Goal.IsTrue() && o.Expect == "unsat" {
			q = "trivial"
		} else {
			hy := unitPropagate(o.Hyps)
			hy = append(hy, congruence(hy, o.Goal)...)
			hy = append(hy, arithLemmas(hy, o.Goal)...)
			o.Hyps = hy
			q = Query(instantiate(o.Hyps, o.Goal), o.Goal, false)
		}
		h := sha1.Sum([]byte(o.Name + "\x00" + q))
		k := string(h[:])
		if v, ok := byKey[k]; ok {
			v.Count++
			continue
		}
		v := &Verdict{O: o, Query: q, Count: 1, QSize: len(q)}
		if strings.Contains(q, "(define-fun spec") {
			v.Abstract = QueryOpt(instantiate(o.Hyps, o.Goal), o.Goal, false, true)
		}
		byKey[k] = v
		order = append(order, v)
	}
	jobs := make(chan *Verdict)
	satisfied := map[string]bool{}
	var satMu sync.Mutex
	var wg sync.WaitGroup
	for i := 0; i < opt.workers; i++ {
		wg.Add(1)
		go func() {
			defer wg.Done()
			for v := range jobs {
				// canaries, covers and antecedent audits are existential over paths: once one instance of a name is
				// satisfied the others add nothing
				exist := v.O.Expect == "sat" && (v.O.Kind == "canary" || v.O.Kind == "cover" || v.O.Kind == "reach")
				if exist {
					satMu.Lock()
					done := satisfied[v.O.Name]
					satMu.Unlock()
					if done {
						v.Status = "ok"
						v.Result = SolverResult{Status: "sat", Solver: "skipped(another instance satisfied)"}
						continue
					}
				}
				solveOne(v, opt)
				if exist && v.Status == "ok" {
					satMu.Lock()
					satisfied[v.O.Name] = true
					satMu.Unlock()
				}
			}
		}()
	}
	for _, v := range order {
		jobs <- v
	}
	close(jobs)
	wg.Wait()
	// undecided queries are retried one at a time on an otherwise idle machine with a generous limit, so that
	// load (this run's own parallelism or anything else on the box) cannot turn a provable obligation into an alarm
	// The retry phase has a budget of its own (at most 16 queries, 4 minutes): a tree on which hundreds of queries are
	// undecided is not going to be rescued one query at a time, and the check has to end.
	retried, retryStart := 0, time.Now()
	for _, v := range order {
		if retried >= 16 || time.Since(retryStart) > 4*time.Minute {
			break
		}
		if v.Status == "unknown" && v.Query != "trivial" && len(v.Query) <= 8<<20 {
			retried++
			v.Abstract = ""
			o2 := opt
			o2.timeoutS = opt.timeoutS * 6
			solveOne(v, o2)
			v.Retried = true
		}
	}
	return order
}

func solveOne(v *Verdict, opt dischargeOpts) {
	o := v.O
	if v.Query == "trivial" {
		v.Status = "discharged"
		v.Result = SolverResult{Status: "unsat", Solver: "simplifier"}
		return
	}
	if len(v.Query) > 8<<20 {
		v.Status = "unknown"
		v.Result = SolverResult{Status: "unknown", Output: "query exceeds size cap"}
		return
	}
	st := time.Now()
	if v.Abstract != "" && o.Expect == "unsat" {
		r := runSolvers(v.Abstract, 3, false, "")
		if r.Status == "unsat" {
			r.Time = time.Since(st).Seconds()
			r.Solver += "(spec functions uninterpreted)"
			v.Result, v.Status = r, "discharged"
			return
		}
	}
	all, to := opt.all, opt.timeoutS
	if o.Kind == "reach" {
		// audit obligations: the first answer is enough, short timeout
		all, to = false, 10
	}
	r := runSolvers(v.Query, to, all, "")
	r.Time = time.Since(st).Seconds()
	v.Result = r
	switch o.Expect {
	case "unsat":
		switch r.Status {
		case "unsat":
			v.Status = "discharged"
		case "sat":
			v.Status = "failed"
		default:
			v.Status = "unknown"
		}
	case "sat":
		// cover / canary: must NOT be valid
		switch r.Status {
		case "sat":
			v.Status = "ok"
		case "unsat":
			v.Status = "vacuous"
		default:
			v.Status = "ok-unknown"
		}
	}
}

func saveQuery(dir string, v *Verdict) string {
	os.MkdirAll(dir, 0o755)
	name := strings.NewReplacer("/", "_", " ", "_", "(", "", ")", "", "*", "P", "#", "-", ":", "_", "@", "_").Replace(v.O.Name)
	if len(name) > 120 {
		name = name[:120]
	}
	p := filepath.Join(dir, fmt.Sprintf("%s-%s.smt2", name, strings.ReplaceAll(v.O.Path, ".", "")))
	os.WriteFile(p, []byte(v.Query), 0o644)
	return p
}

// groupByName merges verdicts of the same obligation name (different paths).
type NameSummary struct {
	Name     string
	Kind     string
	Func     string
	Total    int
	Discharged int
	Failed   []*Verdict
	Unknown  []*Verdict
	Solvers  map[string]int
	Time     float64
}

func summarize(vs []*Verdict) []*NameSummary {
	m := map[string]*NameSummary{}
	var names []string
	for _, v := range vs {
		ns := m[v.O.Name]
		if ns == nil {
			ns = &NameSummary{Name: v.O.Name, Kind: v.O.Kind, Func: v.O.Func, Solvers: map[string]int{}}
			m[v.O.Name] = ns
			names = append(names, v.O.Name)
		}
		ns.Total++
		ns.Time += v.Result.Time
		switch v.Status {
		case "discharged":
			ns.Discharged++
			ns.Solvers[v.Result.Solver]++
		case "failed", "vacuous":
			ns.Failed = append(ns.Failed, v)
		case "unknown":
			ns.Unknown = append(ns.Unknown, v)
		case "ok", "ok-unknown":
			ns.Discharged++
			ns.Solvers[v.Result.Solver]++
		}
	}
	// canaries and covers are existential over paths: one refutable instance suffices
	for _, ns := range m {
		if (ns.Kind == "canary" || ns.Kind == "cover" || ns.Kind == "reach") && ns.Discharged > 0 {
			ns.Failed = nil
		}
	}
	sort.Strings(names)
	var out []*NameSummary
	for _, n := range names {
		out = append(out, m[n])
	}
	return out
}
