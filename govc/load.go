package main

import (
	"fmt"
	"go/types"
	"os"
	"path/filepath"
	"strings"

	"golang.org/x/tools/go/packages"
	"golang.org/x/tools/go/ssa"
	"golang.org/x/tools/go/ssa/ssautil"
)

const modulePath = "github.com/bluenviron/gomavlib/v3"

type Loaded struct {
	eng     *Engine
	pcs     map[string]*PkgContracts // rel dir -> contracts
	pkgs    []*packages.Package
	overlay map[string]string // generated text per package dir
	bindErrors []string
}

func relToImport(rel string) string {
	if rel == "." || rel == "" {
		return modulePath
	}
	return modulePath + "/" + rel
}

func goEnv() []string {
	env := os.Environ()
	env = append(env, "GOFLAGS=-mod=mod", "GOPROXY=off", "GOSUMDB=off", "GOTOOLCHAIN=local", "CGO_ENABLED=0")
	return env
}

// load parses contracts, generates overlays, type-checks and builds SSA for the given package dirs.
type pkgExtra struct{ Spec, Contracts string }

func load(repo string, rels []string, specDir string, extras ...map[string]pkgExtra) (*Loaded, error) {
	ld := &Loaded{pcs: map[string]*PkgContracts{}, overlay: map[string]string{}}
	overlay := map[string][]byte{}
	var patterns []string
	for _, rel := range rels {
		pc, files, _, err := loadPkgContracts(repo, rel, relToImport(rel))
		if err != nil {
			return nil, err
		}
		if len(extras) > 0 {
			if ex, ok := extras[0][rel]; ok {
				pc.ExtraSpec = ex.Spec
				tmp := filepath.Join(scratch(), "extra-"+strings.ReplaceAll(rel, "/", "_")+".go")
				os.WriteFile(tmp, []byte("package "+pc.Name+"\n"+ex.Contracts), 0o644)
				if err := parseContractFile(tmp, pc); err != nil {
					return nil, err
				}
			}
		}
		ld.pcs[rel] = pc
		txt, err := genOverlay(pc, files, specDir)
		if err != nil {
			ld.bindErrors = append(ld.bindErrors, err.Error())
			// retry without the contracts that failed to bind: keep going with an empty overlay
			txt = fmt.Sprintf("package %s\n", pc.Name)
		}
		ld.bindErrors = append(ld.bindErrors, pc.BindErrors...)
		ld.overlay[rel] = txt
		overlay[filepath.Join(repo, rel, "zz_govc_gen.go")] = []byte(txt)
		if rel == "." {
			patterns = append(patterns, ".")
		} else {
			patterns = append(patterns, "./"+rel)
		}
	}
	cfg := &packages.Config{
		Mode:       packages.NeedName | packages.NeedFiles | packages.NeedCompiledGoFiles | packages.NeedImports | packages.NeedDeps | packages.NeedTypes | packages.NeedSyntax | packages.NeedTypesInfo | packages.NeedTypesSizes,
		Dir:        repo,
		Env:        goEnv(),
		BuildFlags: []string{"-tags=verif"},
		Overlay:    overlay,
	}
	pkgs, err := packages.Load(cfg, patterns...)
	if err != nil {
		return nil, err
	}
	var errs []string
	packages.Visit(pkgs, nil, func(p *packages.Package) {
		for _, e := range p.Errors {
			errs = append(errs, e.Error())
		}
	})
	if len(errs) > 0 {
		return ld, fmt.Errorf("type errors:\n  %s", strings.Join(errs, "\n  "))
	}
	ld.pkgs = pkgs
	prog, _ := ssautil.AllPackages(pkgs, ssa.InstantiateGenerics)
	// bodies are needed only for the module's own packages: library calls are interpreted by models
	for _, p := range prog.AllPackages() {
		if strings.HasPrefix(p.Pkg.Path(), modulePath) {
			p.Build()
		}
	}
	eng := &Engine{prog: prog, pkgs: map[string]*ssa.Package{}, contracts: map[*ssa.Function]*FuncContract{}, cfuncs: map[string]*ssa.Function{},
		closed: map[string][]types.Type{}, specPure: map[*ssa.Function]bool{}, repo: repo, modulePrefix: modulePath, defined: map[string]bool{}, trustedUsed: map[string]bool{}, contractsUsed: map[string]bool{}, ifConvert: true}
	ld.eng = eng
	packages.Visit(pkgs, nil, func(p *packages.Package) { eng.loadedPkgs = append(eng.loadedPkgs, p) })
	for _, p := range prog.AllPackages() {
		eng.pkgs[p.Pkg.Path()] = p
	}
	// spec/clause functions: everything whose position is in an overlay or contract file
	for _, rel := range rels {
		sp := eng.pkgs[relToImport(rel)]
		if sp == nil {
			continue
		}
		for _, m := range sp.Members {
			fn, ok := m.(*ssa.Function)
			if !ok {
				continue
			}
			pos := prog.Fset.Position(fn.Pos())
			if strings.HasSuffix(pos.Filename, "zz_govc_gen.go") || strings.HasSuffix(pos.Filename, "zz_contracts_verif.go") || strings.HasPrefix(fn.Name(), "govc__") {
				eng.markSpec(fn)
				if strings.HasPrefix(fn.Name(), "govc__") {
					eng.cfuncs[fn.Name()] = fn
				}
			}
		}
	}
	// bind contracts
	for _, rel := range rels {
		pc := ld.pcs[rel]
		sp := eng.pkgs[pc.Path]
		for _, fc := range pc.Funcs {
			if fc.Unbound {
				continue
			}
			fn := findFunc(prog, sp, fc.QualName)
			if fn == nil {
				ld.bindErrors = append(ld.bindErrors, fmt.Sprintf("bind:%s.%s: function not found in SSA", pc.Name, fc.QualName))
				continue
			}
			eng.contracts[fn] = fc
			if r, ok := closureRebind[pc.Path+"."+fc.QualName]; ok {
				// the literal moved to another ordinal: everything that names functions (obligations, ghost log, the
				// callee strings of the specs) keeps calling it by the name its contract gives it
				k := strings.Index(r, "$")
				actual := shortFn(fn)
				if j := strings.LastIndex(actual, "$"); j >= 0 && k >= 0 {
					fnAlias[fn] = actual[:j] + fc.QualName[strings.Index(fc.QualName, "$"):]
					aliasTaken[fnAlias[fn]] = true
				}
			}
			if fc.Lemma {
				delete(eng.specPure, fn) // lemmas are verified like code
			}
		}
	}
	// closed-world interfaces: interfaces with unexported methods declared in loaded module packages
	for _, p := range prog.AllPackages() {
		if !strings.HasPrefix(p.Pkg.Path(), modulePath) {
			continue
		}
		for _, m := range p.Members {
			tn, ok := m.(*ssa.Type)
			if !ok {
				continue
			}
			it, ok := tn.Type().Underlying().(*types.Interface)
			if !ok {
				continue
			}
			closed := false
			for i := 0; i < it.NumMethods(); i++ {
				if !it.Method(i).Exported() {
					closed = true
				}
			}
			if !closed {
				continue
			}
			var impls []types.Type
			for _, m2 := range p.Members {
				t2, ok := m2.(*ssa.Type)
				if !ok {
					continue
				}
				if _, isI := t2.Type().Underlying().(*types.Interface); isI {
					continue
				}
				pt := types.NewPointer(t2.Type())
				if types.Implements(pt, it) {
					impls = append(impls, pt)
					typeID(pt)
				}
			}
			sortTypes(impls)
			eng.closed[types.TypeString(tn.Type(), nil)] = impls
		}
	}
	// make sure well-known type ids exist
	if mp := eng.pkgs[modulePath+"/pkg/message"]; mp != nil {
		if t := mp.Type("MessageRaw"); t != nil {
			typeID(types.NewPointer(t.Type()))
		}
	}
	if fp := eng.pkgs[modulePath+"/pkg/frame"]; fp != nil {
		if t := fp.Type("ReadError"); t != nil {
			typeID(t.Type())
		}
	}
	return ld, nil
}

func sortTypes(ts []types.Type) {
	for i := 1; i < len(ts); i++ {
		for j := i; j > 0 && types.TypeString(ts[j], nil) < types.TypeString(ts[j-1], nil); j-- {
			ts[j], ts[j-1] = ts[j-1], ts[j]
		}
	}
}

func (e *Engine) markSpec(fn *ssa.Function) {
	e.specPure[fn] = true
	for _, a := range fn.AnonFuncs {
		e.markSpec(a)
	}
}

// findFunc resolves "(*T).M", "(T).M" or "F" in package sp.
func findFunc(prog *ssa.Program, sp *ssa.Package, qual string) *ssa.Function {
	if sp == nil {
		return nil
	}
	if k := strings.Index(qual, "$"); k >= 0 {
		if r, ok := closureRebind[sp.Pkg.Path()+"."+qual]; ok {
			qual = r
		}
		parent := findFunc(prog, sp, qual[:k])
		if parent == nil {
			return nil
		}
		for _, af := range parent.AnonFuncs {
			if af.Name() == parent.Name()+qual[k:] {
				return af
			}
		}
		return nil
	}
	if !strings.HasPrefix(qual, "(") {
		return sp.Func(qual)
	}
	i := strings.Index(qual, ").")
	if i < 0 {
		return nil
	}
	tn := qual[1:i]
	mn := qual[i+2:]
	ptr := strings.HasPrefix(tn, "*")
	tn = strings.TrimPrefix(tn, "*")
	t := sp.Type(tn)
	if t == nil {
		return nil
	}
	var recv types.Type = t.Type()
	if ptr {
		recv = types.NewPointer(recv)
	}
	ms := prog.MethodSets.MethodSet(recv)
	for k := 0; k < ms.Len(); k++ {
		sel := ms.At(k)
		if sel.Obj().Name() == mn {
			fn := prog.MethodValue(sel)
			// a value-receiver method reached through *T is a wrapper; insist on exact receiver kind
			if fn != nil && fn.Synthetic == "" {
				return fn
			}
		}
	}
	return nil
}
