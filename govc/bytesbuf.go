package main

// Trusted model of *bytes.Buffer used as a scratch io.Writer (tlog.Writer).
//
// The buffer has no heap state of its own in the model: what it holds IS the ghost log.  Write(p) and Reset() are log
// events on the buffer; Bytes() returns a fresh slice holding the concatenation of the bytes of every io.Writer.Write
// event whose target is this buffer since its last Reset (Write never fails and takes all of p).  Events appended by a
// callee's contract (abstract entries) take part through the same predicates the contracts use (logCallee / logIsTo).

import (
	"go/types"

	"golang.org/x/tools/go/ssa"
)

func bufIface(s *State, p *PtrV) *IfaceV {
	tid := typeID(types.NewPointer(p.Elem))
	h := Const(64, 0)
	if p.Obj != nil {
		h = Const(64, uint64(p.Obj.ID))
	}
	return &IfaceV{Type: Const(32, uint64(tid)), Handle: h, Static: types.NewInterfaceType(nil, nil), alts: map[int]Value{tid: p}}
}

// diagnostics (printing, logging) read their arguments and change nothing the contracts speak about
func registerDiagnosticsModel() {
	for _, name := range []string{"fmt.Println", "fmt.Printf", "fmt.Print", "log.Println", "log.Printf", "log.Print"} {
		isFmt := name[:3] == "fmt"
		libTable[name] = func(s *State, fn *ssa.Function, args []Value, where string) []Value {
			if isFmt {
				return []Value{s.freshVar("print.n", BV(64)), s.symValue(errorType(), "print.err")}
			}
			return nil
		}
	}
}

func registerBytesBufferModel() {
	registerDiagnosticsModel()
	libTable["(*bytes.Buffer).Write"] = func(s *State, fn *ssa.Function, args []Value, where string) []Value {
		b := args[0].(*PtrV)
		p := args[1].(*SliceV)
		s.check("safety:nil@"+where, Not(b.Nil))
		s.log = append(s.log, LogEntry{Callee: "io.Writer.Write", Target: bufIface(s, b), Arr: s.sliceArr(p), Off: p.Off, N: p.Len,
			RetN: p.Len, Err: s.zeroValue(errorType()), BufObj: p.object()})
		return []Value{p.Len, s.zeroValue(errorType())}
	}
	libTable["(*bytes.Buffer).WriteByte"] = func(s *State, fn *ssa.Function, args []Value, where string) []Value {
		// one byte appended: a Write of a fresh one-byte array
		b := args[0].(*PtrV)
		s.check("safety:nil@"+where, Not(b.Nil))
		et := types.Typ[types.Uint8]
		one := Const(64, 1)
		o := s.newObj(types.NewArray(et, 0), &ArrayV{Arr: &ArrStore{Base: &ArrZero{W: 8}, Idx: Const(64, 0), Val: asTerm(args[1])}, N: one, Elem: et}, "bytes.Buffer.WriteByte", true)
		s.log = append(s.log, LogEntry{Callee: "io.Writer.Write", Target: bufIface(s, b), Arr: s.arrayOf(o).Arr, Off: Const(64, 0), N: one,
			RetN: one, Err: s.zeroValue(errorType()), BufObj: o})
		return []Value{s.zeroValue(errorType())}
	}
	libTable["(*bytes.Buffer).Reset"] = func(s *State, fn *ssa.Function, args []Value, where string) []Value {
		b := args[0].(*PtrV)
		s.check("safety:nil@"+where, Not(b.Nil))
		s.logEvent("bytes.Buffer.Reset", bufIface(s, b))
		return nil
	}
	libTable["(*bytes.Buffer).Bytes"] = func(s *State, fn *ssa.Function, args []Value, where string) []Value {
		b := args[0].(*PtrV)
		s.check("safety:nil@"+where, Not(b.Nil))
		me := bufIface(s, b)
		// last Reset of this buffer
		start := 0
		for i := len(s.log) - 1; i >= 0; i-- {
			e := &s.log[i]
			if e.Callee == "bytes.Buffer.Reset" {
				if iv, ok := e.Target.(*IfaceV); ok && iv.Type == me.Type && iv.Handle == me.Handle {
					start = i + 1
					break
				}
			}
		}
		var arr Arr = &ArrZero{W: 8}
		total := Const(64, 0)
		for i := start; i < len(s.log); i++ {
			e := &s.log[i]
			var isW *Term
			switch e.Callee {
			case "io.Writer.Write":
				isW = True
			case "?", "none":
				isW = App("logcallee_"+sanitize("io.Writer.Write"), BoolSort, e.N)
			default:
				continue
			}
			c := And(isW, Eq(e.targetType(), me.Type), Eq(e.targetHandle(), me.Handle))
			if c.IsFalse() {
				continue
			}
			n := Ite(c, e.N, Const(64, 0))
			arr = &ArrCopy{Base: arr, DstOff: total, Src: e.Arr, SrcOff: e.Off, N: n}
			total = Add(total, n)
		}
		s.lenAssume(total)
		et := types.Typ[types.Uint8]
		o := s.newObj(types.NewArray(et, 0), &ArrayV{Arr: arr, N: total, Elem: et}, "bytes.Buffer.Bytes", true)
		return []Value{&SliceV{Obj: o, Off: Const(64, 0), Len: total, Cap: total, Elem: et}}
	}
}
