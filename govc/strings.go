package main

func (s *State) concatStrings(a, b *StringV) Value {
	if a.Lit != nil && b.Lit != nil {
		str := *a.Lit + *b.Lit
		return &StringV{Arr: &ArrBytes{B: []byte(str)}, Len: Const(64, uint64(len(str))), Lit: &str}
	}
	n := Add(a.Len, b.Len)
	return &StringV{Arr: &ArrCopy{Base: &ArrCopy{Base: &ArrZero{W: 8}, DstOff: Const(64, 0), Src: a.Arr, SrcOff: Const(64, 0), N: a.Len}, DstOff: a.Len, Src: b.Arr, SrcOff: Const(64, 0), N: b.Len}, Len: n}
}

func (s *State) stringEq(a, b *StringV) *Term {
	le := Eq(a.Len, b.Len)
	if le.IsFalse() {
		return False
	}
	if a.Len.IsConst() && a.Len.Val <= 64 {
		cs := []*Term{le}
		for i := uint64(0); i < a.Len.Val; i++ {
			cs = append(cs, Eq(a.Arr.Select(Const(64, i)), b.Arr.Select(Const(64, i))))
		}
		return And(cs...)
	}
	if b.Len.IsConst() && b.Len.Val <= 64 {
		return s.stringEq(b, a)
	}
	k := s.freshVar("k.streq", BV(64))
	return And(le, Forall(k, Implies(And(CmpBV("bvsle", Const(64, 0), k), CmpBV("bvslt", k, a.Len)), Eq(a.Arr.Select(k), b.Arr.Select(k)))))
}
