package main

// Contract files: comment-only Go files `zz_contracts_verif.go` in /repo,
// guarded by //go:build verif.  Each `//@` line is one item.  Clause
// expressions are Go boolean expressions over the function's receiver,
// parameters and results, extended with `a ==> b`, `forall k T :: e`,
// `old(e)` and ghost/spec functions declared in the prelude.  Every clause is
// wrapped into a generated Go function (in an overlay file, never written to
// /repo), type-checked by go/types with the package and executed symbolically
// by the same engine that executes the code.

import (
	"strconv"
	"fmt"
	"go/ast"
	"go/parser"
	"go/token"
	"go/types"
	"os"
	"path/filepath"
	"regexp"
	"sort"
	"strings"
)

type Clause struct {
	Kind string // requires ensures canary invariant decreases modifies
	Text string
	Fn   string // generated function name
	Line int
	Loop int
	Name string // optional label: `ensures [label] expr`
	When *Clause // modifies ... when <cond over the pre-state>
	Ante *Clause // ensures `A ==> B`: the antecedent A as a clause of its own (reachability audit)
}

type LoopBind struct {
	Name, Type, SSAName string
}

type LoopContract struct {
	Ord        int
	Binds      []LoopBind
	Invariants []*Clause
	Decreases  *Clause
	Modifies   []*Clause
	Unroll     bool
	BodyEnsures []*Clause // must hold at every back edge, ghost log indices relative to the loop header
	ModifiesFresh bool // every byte array allocated by the function before the loop may change in the loop
}

type FuncContract struct {
	Pkg      string // import path
	PkgName  string
	QualName string // (*T).Name / (T).Name / Name
	Results  []string
	Requires []*Clause
	Ensures  []*Clause
	Canaries []*Clause
	Modifies []*Clause
	ModifiesNothing bool
	Loops    map[int]*LoopContract
	Inline   bool
	Trusted  bool
	Assumes  []string
	Fresh    []string // result/field paths declared fresh
	File     string
	Line     int
	// filled by generator
	Captures   [][2]string // closures: captured variables (name, type)
	ParamsDecl []string    // the contract's own names for receiver and parameters, by position (optional)
	ParamsPinned bool      // the header carries params (...), possibly empty
	ResultsPinned bool     // the header carries returns (...)
	ParamNames []string // receiver first
	ParamTypes []string
	ResultTypes []string
	Mangled    string
	Lemma      bool // ghost function defined in spec file; verified like code
	Lets       [][2]string
	Options    map[string]bool
	Unbound    bool
	GhostLog   []string  // calls to these functions are recorded in the ghost log instead of being executed
	Defines    []*Clause // assumed by callers, not an obligation: defines an uninterpreted ghost function by the function's behaviour
}

type PkgContracts struct {
	Dir     string
	Path    string
	Name    string
	Funcs   []*FuncContract
	ByName  map[string]*FuncContract
	Imports map[string]string // name -> path (union over package files)
	BindErrors []string
	ExtraSpec string // generated ghost code appended to the spec helpers
}

var kwRe = regexp.MustCompile(`^(func|lemma|let|option|ghostlog|requires|ensures|defines|canary|modifies|loop|inline|trusted|assumes|returns)\b`)

func parseContractFile(path string, pc *PkgContracts) error {
	data, err := os.ReadFile(path)
	if err != nil {
		return err
	}
	var cur *FuncContract
	var last *Clause
	lastLet := false
	inTemplate := false
	var lastMod *FuncContract
	for i, line := range strings.Split(string(data), "\n") {
		l := strings.TrimSpace(line)
		var body string
		switch {
		case strings.HasPrefix(l, "//@"):
			body = strings.TrimSpace(l[3:])
		case strings.HasPrefix(l, "// @"):
			body = strings.TrimSpace(l[4:])
		default:
			continue
		}
		if body == "" || strings.HasPrefix(body, "--") {
			continue
		}
		if strings.HasPrefix(body, "template ") {
			// a contract template (instantiated mechanically elsewhere): documentation for this parser
			inTemplate = true
			continue
		}
		if inTemplate {
			if strings.HasPrefix(body, "func ") {
				inTemplate = false
			} else {
				continue
			}
		}
		if j := strings.Index(body, " -- "); j >= 0 {
			body = strings.TrimSpace(body[:j])
		}
		if !kwRe.MatchString(body) {
			if last == nil && lastLet && cur != nil && len(cur.Lets) > 0 {
				cur.Lets[len(cur.Lets)-1][1] += " " + body
				continue
			}
			if last == nil && lastMod != nil {
				// continuation of a modifies list
				for _, it := range splitTop(body, ',') {
					it = strings.TrimSpace(it)
					if it == "" {
						continue
					}
					mc := &Clause{Kind: "modifies", Text: it, Line: i + 1}
					if j := strings.Index(mc.Text, " when "); j >= 0 {
						mc.When = &Clause{Kind: "when", Text: strings.TrimSpace(mc.Text[j+6:]), Line: i + 1}
						mc.Text = strings.TrimSpace(mc.Text[:j])
					}
					lastMod.Modifies = append(lastMod.Modifies, mc)
				}
				continue
			}
			if last == nil {
				return fmt.Errorf("%s:%d: continuation without clause", path, i+1)
			}
			last.Text += " " + body
			continue
		}
		kw := kwRe.FindString(body)
		rest := strings.TrimSpace(body[len(kw):])
		last = nil
		lastLet = kw == "let"
		lastMod = nil
		switch kw {
		case "func", "lemma":
			cur = &FuncContract{Pkg: pc.Path, PkgName: pc.Name, Loops: map[int]*LoopContract{}, File: path, Line: i + 1, Lemma: kw == "lemma"}
			if j := strings.Index(rest, " returns "); j >= 0 {
				r := strings.TrimSpace(rest[j+9:])
				r = strings.Trim(r, "()")
				cur.ResultsPinned = true
				for _, x := range strings.Split(r, ",") {
					cur.Results = append(cur.Results, strings.TrimSpace(x))
				}
				rest = strings.TrimSpace(rest[:j])
			}
			if j := strings.Index(rest, " captures "); j >= 0 {
				// closure under contract: `func (*T).M$2 captures (x *T, y int) returns (r)`: the variables the
				// function literal captures, by their source names, in the order go/ssa lists them as free variables
				c := strings.TrimSpace(rest[j+10:])
				c = strings.Trim(c, "()")
				for _, x := range strings.Split(c, ",") {
					f := strings.Fields(strings.TrimSpace(x))
					if len(f) != 2 {
						return fmt.Errorf("%s:%d: bad captures list", path, i+1)
					}
					cur.Captures = append(cur.Captures, [2]string{f[0], f[1]})
				}
				rest = strings.TrimSpace(rest[:j])
			}
			if j := strings.Index(rest, " params "); j >= 0 {
				// `func (*T).M params (f, buf, n)`: the names this contract uses for the receiver and the parameters, by
				// position, so that renaming a parameter in the code does not detach the contract
				c := strings.Trim(strings.TrimSpace(rest[j+8:]), "()")
				cur.ParamsPinned = true
				for _, x := range strings.Split(c, ",") {
					if x = strings.TrimSpace(x); x != "" {
						cur.ParamsDecl = append(cur.ParamsDecl, x)
					}
				}
				rest = strings.TrimSpace(rest[:j])
			}
			cur.QualName = rest
			pc.Funcs = append(pc.Funcs, cur)
			pc.ByName[rest] = cur
		default:
			if cur == nil {
				return fmt.Errorf("%s:%d: clause outside func block", path, i+1)
			}
			switch kw {
			case "let":
				parts := strings.SplitN(rest, "=", 2)
				if len(parts) != 2 {
					return fmt.Errorf("%s:%d: bad let", path, i+1)
				}
				cur.Lets = append(cur.Lets, [2]string{strings.TrimSpace(parts[0]), strings.TrimSpace(parts[1])})
			case "ghostlog":
				for _, it := range splitTop(rest, ',') {
					cur.GhostLog = append(cur.GhostLog, strings.TrimSpace(it))
				}
			case "option":
				if cur.Options == nil {
					cur.Options = map[string]bool{}
				}
				cur.Options[rest] = true
			case "inline":
				cur.Inline = true
			case "trusted":
				cur.Trusted = true
			case "assumes":
				cur.Assumes = append(cur.Assumes, rest)
			case "requires", "ensures", "canary", "defines":
				c := &Clause{Kind: kw, Text: rest, Line: i + 1}
				if strings.HasPrefix(rest, "[") {
					if j := strings.Index(rest, "]"); j > 0 {
						c.Name = rest[1:j]
						c.Text = strings.TrimSpace(rest[j+1:])
					}
				}
				switch kw {
				case "requires":
					cur.Requires = append(cur.Requires, c)
				case "ensures":
					cur.Ensures = append(cur.Ensures, c)
				case "canary":
					cur.Canaries = append(cur.Canaries, c)
				case "defines":
					cur.Defines = append(cur.Defines, c)
				}
				last = c
			case "modifies":
				if rest == "nothing" {
					cur.ModifiesNothing = true
					break
				}
				lastMod = cur
				rest = strings.TrimSuffix(strings.TrimSpace(rest), ",")
				for _, it := range splitTop(rest, ',') {
					mc := &Clause{Kind: "modifies", Text: strings.TrimSpace(it), Line: i + 1}
					if j := strings.Index(mc.Text, " when "); j >= 0 {
						mc.When = &Clause{Kind: "when", Text: strings.TrimSpace(mc.Text[j+6:]), Line: i + 1}
						mc.Text = strings.TrimSpace(mc.Text[:j])
					}
					cur.Modifies = append(cur.Modifies, mc)
				}
			case "loop":
				f := strings.Fields(rest)
				if len(f) < 2 {
					return fmt.Errorf("%s:%d: bad loop clause", path, i+1)
				}
				var k int
				fmt.Sscanf(f[0], "%d", &k)
				lc := cur.Loops[k]
				if lc == nil {
					lc = &LoopContract{Ord: k}
					cur.Loops[k] = lc
				}
				sub := f[1]
				txt := strings.TrimSpace(strings.TrimPrefix(strings.TrimSpace(strings.TrimPrefix(rest, f[0])), sub))
				switch sub {
				case "bind":
					// bind name type [= ssaname]
					b := LoopBind{}
					parts := strings.SplitN(txt, "=", 2)
					nt := strings.Fields(parts[0])
					if len(nt) < 2 {
						return fmt.Errorf("%s:%d: bad bind", path, i+1)
					}
					b.Name, b.Type = nt[0], strings.Join(nt[1:], " ")
					b.SSAName = b.Name
					if len(parts) == 2 {
						b.SSAName = strings.TrimSpace(parts[1])
					}
					lc.Binds = append(lc.Binds, b)
				case "invariant":
					c := &Clause{Kind: "invariant", Text: txt, Line: i + 1, Loop: k}
					lc.Invariants = append(lc.Invariants, c)
					last = c
				case "body-ensures":
					c := &Clause{Kind: "body-ensures", Text: txt, Line: i + 1, Loop: k}
					if strings.HasPrefix(txt, "[") {
						if j := strings.Index(txt, "]"); j > 0 {
							c.Name = txt[1:j]
							c.Text = strings.TrimSpace(txt[j+1:])
						}
					}
					lc.BodyEnsures = append(lc.BodyEnsures, c)
					last = c
				case "decreases":
					lc.Decreases = &Clause{Kind: "decreases", Text: txt, Line: i + 1, Loop: k}
					last = lc.Decreases
				case "modifies":
					for _, it := range splitTop(txt, ',') {
						lc.Modifies = append(lc.Modifies, &Clause{Kind: "modifies", Text: strings.TrimSpace(it), Line: i + 1, Loop: k})
					}
				case "unroll":
					lc.Unroll = true
				case "modifies-fresh":
					lc.ModifiesFresh = true
				default:
					return fmt.Errorf("%s:%d: unknown loop clause %q", path, i+1, sub)
				}
			}
		}
	}
	return nil
}

func splitTop(s string, sep byte) []string {
	var out []string
	depth := 0
	start := 0
	inStr := byte(0)
	for i := 0; i < len(s); i++ {
		c := s[i]
		if inStr != 0 {
			if c == '\\' {
				i++
			} else if c == inStr {
				inStr = 0
			}
			continue
		}
		switch c {
		case '"', '\'', '`':
			inStr = c
		case '(', '[', '{':
			depth++
		case ')', ']', '}':
			depth--
		default:
			if c == sep && depth == 0 {
				out = append(out, s[start:i])
				start = i + 1
			}
		}
	}
	out = append(out, s[start:])
	return out
}

// findTopImplies returns the index of the first top-level "==>" or -1.
func findTop(s, tok string) int {
	depth := 0
	inStr := byte(0)
	for i := 0; i < len(s); i++ {
		c := s[i]
		if inStr != 0 {
			if c == '\\' {
				i++
			} else if c == inStr {
				inStr = 0
			}
			continue
		}
		switch c {
		case '"', '\'', '`':
			inStr = c
		case '(', '[', '{':
			depth++
		case ')', ']', '}':
			depth--
		}
		if depth == 0 && strings.HasPrefix(s[i:], tok) {
			return i
		}
	}
	return -1
}

var forallRe = regexp.MustCompile(`^(forall|exists)\s+([A-Za-z_][A-Za-z0-9_]*)\s+([A-Za-z0-9_\.\[\]\*]+)\s*::`)

// rewriteExpr turns the contract expression language into plain Go.
func rewriteExpr(s string) string {
	s = strings.TrimSpace(s)
	if m := forallRe.FindStringSubmatch(s); m != nil {
		body := rewriteExpr(s[len(m[0]):])
		return fmt.Sprintf("%s(func(%s %s) bool { return %s })", m[1], m[2], m[3], body)
	}
	if i := findTop(s, "<==>"); i >= 0 {
		a, b := rewriteExpr(s[:i]), rewriteExpr(s[i+4:])
		return fmt.Sprintf("((%s) == (%s))", a, b)
	}
	if i := findTop(s, "==>"); i >= 0 {
		a, b := rewriteExpr(s[:i]), rewriteExpr(s[i+3:])
		return fmt.Sprintf("(!(%s) || (%s))", a, b)
	}
	// recurse into parenthesised groups
	var sb strings.Builder
	inStr := byte(0)
	for i := 0; i < len(s); i++ {
		c := s[i]
		if inStr != 0 {
			sb.WriteByte(c)
			if c == '\\' && i+1 < len(s) {
				i++
				sb.WriteByte(s[i])
			} else if c == inStr {
				inStr = 0
			}
			continue
		}
		if c == '"' || c == '\'' || c == '`' {
			inStr = c
			sb.WriteByte(c)
			continue
		}
		if c == '(' {
			// find match
			depth := 0
			j := i
			for ; j < len(s); j++ {
				if s[j] == '(' {
					depth++
				} else if s[j] == ')' {
					depth--
					if depth == 0 {
						break
					}
				}
			}
			if j >= len(s) {
				sb.WriteString(s[i:])
				break
			}
			inner := s[i+1 : j]
			if strings.Contains(inner, "==>") || strings.Contains(inner, "forall") || strings.Contains(inner, "exists") {
				// argument lists: rewrite each top-level comma part
				parts := splitTop(inner, ',')
				for k := range parts {
					parts[k] = rewriteExpr(parts[k])
				}
				inner = strings.Join(parts, ", ")
			}
			sb.WriteString("(" + inner + ")")
			i = j
			continue
		}
		sb.WriteByte(c)
	}
	return sb.String()
}

func mangle(q string) string {
	r := strings.NewReplacer("(", "", ")", "", "*", "P", ".", "_", " ", "", "$", "_lit")
	return r.Replace(q)
}

// funcDeclFor finds the declaration matching a qualified name.
func funcDeclFor(files []*ast.File, qual string) (*ast.FuncDecl, *ast.File) {
	for _, f := range files {
		for _, d := range f.Decls {
			fd, ok := d.(*ast.FuncDecl)
			if !ok {
				continue
			}
			if qualNameOfDecl(fd) == qual {
				return fd, f
			}
		}
	}
	return nil, nil
}

func qualNameOfDecl(fd *ast.FuncDecl) string {
	if fd.Recv == nil || len(fd.Recv.List) == 0 {
		return fd.Name.Name
	}
	t := fd.Recv.List[0].Type
	return "(" + types.ExprString(t) + ")." + fd.Name.Name
}

// loadPkgContracts parses the package's contract file (if any) and source ASTs.
func loadPkgContracts(repo, rel, importPath string) (*PkgContracts, []*ast.File, *token.FileSet, error) {
	dir := filepath.Join(repo, rel)
	fset := token.NewFileSet()
	ents, err := os.ReadDir(dir)
	if err != nil {
		return nil, nil, nil, err
	}
	var files []*ast.File
	pc := &PkgContracts{Dir: dir, Path: importPath, ByName: map[string]*FuncContract{}, Imports: map[string]string{}}
	for _, e := range ents {
		n := e.Name()
		if !strings.HasSuffix(n, ".go") || strings.HasSuffix(n, "_test.go") || strings.HasPrefix(n, "zz_govc_") {
			continue
		}
		f, err := parser.ParseFile(fset, filepath.Join(dir, n), nil, parser.SkipObjectResolution)
		if err != nil {
			return nil, nil, nil, err
		}
		pc.Name = f.Name.Name
		if n == "zz_contracts_verif.go" {
			continue
		}
		files = append(files, f)
		for _, im := range f.Imports {
			p := strings.Trim(im.Path.Value, `"`)
			name := filepath.Base(p)
			if im.Name != nil {
				name = im.Name.Name
			}
			if name == "_" || name == "." {
				continue
			}
			// module paths ending in /vN
			if regexp.MustCompile(`^v[0-9]+$`).MatchString(name) {
				name = filepath.Base(filepath.Dir(p))
			}
			pc.Imports[name] = p
		}
	}
	cf := filepath.Join(dir, "zz_contracts_verif.go")
	if _, err := os.Stat(cf); err == nil {
		if err := parseContractFile(cf, pc); err != nil {
			return nil, nil, nil, err
		}
	}
	return pc, files, fset, nil
}

// closureRebind: contracts on function literals that moved to another ordinal (package path + "." + contract name ->
// the name go/ssa gives the literal now).
var closureRebind = map[string]string{}

// topFuncLits lists the function literals of a function in go/ssa's numbering: source order, nested ones not counted.
func topFuncLits(fd *ast.FuncDecl) []*ast.FuncLit {
	var lits []*ast.FuncLit
	ast.Inspect(fd.Body, func(nd ast.Node) bool {
		if fl, ok := nd.(*ast.FuncLit); ok {
			lits = append(lits, fl)
			return false
		}
		return true
	})
	return lits
}

func closureArityOK(l *ast.FuncLit, fc *FuncContract) bool {
	pn, _ := fieldListNames(l.Type.Params, "a")
	rn, _ := fieldListNames(l.Type.Results, "ret")
	if fc.ParamsPinned && len(pn) != len(fc.ParamsDecl) {
		return false
	}
	if fc.ResultsPinned && len(rn) != len(fc.Results) {
		return false
	}
	return true
}

// closureMentions: every variable the contract says the literal captures is used in its body.
func closureMentions(l *ast.FuncLit, fc *FuncContract) bool {
	used := map[string]bool{}
	ast.Inspect(l.Body, func(nd ast.Node) bool {
		if id, ok := nd.(*ast.Ident); ok {
			used[id.Name] = true
		}
		return true
	})
	for _, c := range fc.Captures {
		if !used[c[0]] {
			return false
		}
	}
	return true
}

func fieldListNames(fl *ast.FieldList, prefix string) (names, typs []string) {
	if fl == nil {
		return
	}
	k := 0
	for _, f := range fl.List {
		t := types.ExprString(f.Type)
		if el, ok := f.Type.(*ast.Ellipsis); ok {
			t = "[]" + types.ExprString(el.Elt)
		}
		if len(f.Names) == 0 {
			names = append(names, fmt.Sprintf("%s%d", prefix, k))
			typs = append(typs, t)
			k++
			continue
		}
		for _, n := range f.Names {
			nm := n.Name
			if nm == "_" {
				nm = fmt.Sprintf("%s%d", prefix, k)
			}
			names = append(names, nm)
			typs = append(typs, t)
			k++
		}
	}
	return
}

// genOverlay produces the generated Go file for one package: prelude, spec
// helpers (copied from /verif/spec/<pkgname>.go when present) and one function
// per clause.
func genOverlay(pc *PkgContracts, files []*ast.File, specDir string) (string, error) {
	var sb strings.Builder
	var body strings.Builder
	usedImports := map[string]bool{}
	strLit := regexp.MustCompile(`"(\\.|[^"\\])*"`)
	noteImports := func(s string) {
		s = strLit.ReplaceAllString(s, `""`)
		for name := range pc.Imports {
			if regexp.MustCompile(`\b` + regexp.QuoteMeta(name) + `\.`).MatchString(s) {
				usedImports[name] = true
			}
		}
	}
	// spec helpers
	specFile := filepath.Join(specDir, pc.Name+".go.txt")
	specImports := map[string]string{}
	if data, err := os.ReadFile(specFile); err == nil {
		txt := string(data)
		// strip package clause and import block, remember imports
		lines := strings.Split(txt, "\n")
		var keep []string
		inImp := false
		for _, l := range lines {
			t := strings.TrimSpace(l)
			switch {
			case strings.HasPrefix(t, "package "):
				continue
			case t == "import (":
				inImp = true
				continue
			case inImp && t == ")":
				inImp = false
				continue
			case inImp:
				if t != "" {
					p := strings.Fields(t)
					path := strings.Trim(p[len(p)-1], `"`)
					name := filepath.Base(path)
					if len(p) == 2 {
						name = p[0]
					}
					specImports[name] = path
				}
				continue
			case strings.HasPrefix(t, "import "):
				p := strings.Fields(t)
				path := strings.Trim(p[len(p)-1], `"`)
				name := filepath.Base(path)
				if len(p) == 3 {
					name = p[1]
				}
				specImports[name] = path
				continue
			}
			keep = append(keep, l)
		}
		body.WriteString("// ---- spec helpers from " + specFile + "\n")
		body.WriteString(strings.Join(keep, "\n"))
		body.WriteString("\n")
	}
	if pc.ExtraSpec != "" {
		body.WriteString("// ---- generated ghost clients\n" + pc.ExtraSpec + "\n")
	}
	body.WriteString("\n// ---- clause functions\n")
	for _, fc := range pc.Funcs {
		fc.Mangled = pc.Name + "__" + mangle(fc.QualName)
		var pnames, ptypes, rnames, rtypes []string
		if fc.Lemma {
			// lemma: a ghost function defined in the spec file; find it in the spec text
			fset := token.NewFileSet()
			src := "package p\n" + body.String()
			f, err := parser.ParseFile(fset, "spec.go", src, parser.SkipObjectResolution)
			if err != nil {
				return "", fmt.Errorf("spec file for %s does not parse: %v", pc.Name, err)
			}
			fd, _ := funcDeclFor([]*ast.File{f}, fc.QualName)
			if fd == nil {
				return "", fmt.Errorf("bind:%s: lemma function not found in spec file", fc.QualName)
			}
			pnames, ptypes = fieldListNames(fd.Type.Params, "a")
			rnames, rtypes = fieldListNames(fd.Type.Results, "ret")
		} else {
			if k := strings.Index(fc.QualName, "$"); k >= 0 {
				// the n-th function literal of the enclosing function (go/ssa numbering: source order, not nested)
				fd, _ := funcDeclFor(files, fc.QualName[:k])
				n, err := strconv.Atoi(fc.QualName[k+1:])
				var lit *ast.FuncLit
				if fd != nil && err == nil && fd.Body != nil {
					lits := topFuncLits(fd)
					if n >= 1 && n <= len(lits) && closureArityOK(lits[n-1], fc) {
						lit = lits[n-1]
					} else {
						// the ordinal moved (a function literal was added or removed before this one): the contract follows
						// the one literal of the same shape that no other contract holds by its ordinal
						claimed := map[int]bool{}
						for _, o := range pc.Funcs {
							if o != fc && strings.HasPrefix(o.QualName, fc.QualName[:k]+"$") {
								if m, e := strconv.Atoi(o.QualName[k+1:]); e == nil && m >= 1 && m <= len(lits) && closureArityOK(lits[m-1], o) {
									claimed[m] = true
								}
							}
						}
						found := 0
						for m, l := range lits {
							if !claimed[m+1] && closureArityOK(l, fc) && closureMentions(l, fc) {
								if found != 0 {
									found = -1
									break
								}
								found = m + 1
							}
						}
						if found > 0 && (fc.ParamsPinned || fc.ResultsPinned) {
							lit = lits[found-1]
							closureRebind[pc.Path+"."+fc.QualName] = fmt.Sprintf("%s$%d", fc.QualName[:k], found)
						}
					}
				}
				if lit == nil {
					pc.BindErrors = append(pc.BindErrors, fmt.Sprintf("bind:%s.%s: no such function literal in package source", pc.Name, fc.QualName))
					fc.Unbound = true
					continue
				}
				for _, c := range fc.Captures {
					pnames = append(pnames, c[0])
					ptypes = append(ptypes, c[1])
				}
				pn, pt := fieldListNames(lit.Type.Params, "a")
				if len(fc.ParamsDecl) == len(pn) {
					pn = append([]string{}, fc.ParamsDecl...)
				} else if len(fc.ParamsDecl) > 0 {
					pc.BindErrors = append(pc.BindErrors, fmt.Sprintf("bind:%s.%s: params(...) names %d parameters, the function literal has %d", pc.Name, fc.QualName, len(fc.ParamsDecl), len(pn)))
					fc.Unbound = true
					continue
				}
				pnames = append(pnames, pn...)
				ptypes = append(ptypes, pt...)
				rnames, rtypes = fieldListNames(lit.Type.Results, "ret")
			} else {
			fd, _ := funcDeclFor(files, fc.QualName)
			if fd == nil {
				pc.BindErrors = append(pc.BindErrors, fmt.Sprintf("bind:%s.%s: no such function in package source", pc.Name, fc.QualName))
				fc.Unbound = true
				continue
			}
			if fd.Recv != nil {
				pnames, ptypes = fieldListNames(fd.Recv, "recv")
			}
			pn, pt := fieldListNames(fd.Type.Params, "a")
			pnames = append(pnames, pn...)
			ptypes = append(ptypes, pt...)
			if len(fc.ParamsDecl) == len(pnames) {
				pnames = append([]string{}, fc.ParamsDecl...)
			} else if len(fc.ParamsDecl) > 0 {
				pc.BindErrors = append(pc.BindErrors, fmt.Sprintf("bind:%s.%s: params(...) names %d parameters, the function has %d", pc.Name, fc.QualName, len(fc.ParamsDecl), len(pnames)))
				fc.Unbound = true
				continue
			}
			rnames, rtypes = fieldListNames(fd.Type.Results, "ret")
			}
		}
		if len(fc.Results) > 0 {
			if len(fc.Results) != len(rtypes) {
				return "", fmt.Errorf("bind:%s: returns(...) arity mismatch", fc.QualName)
			}
			rnames = fc.Results
		} else {
			for i := range rnames {
				if strings.HasPrefix(rnames[i], "ret") {
					if rtypes[i] == "error" && i == len(rnames)-1 {
						rnames[i] = "err"
					} else if len(rnames) == 1 || (len(rnames) == 2 && rtypes[1] == "error" && i == 0) {
						rnames[i] = "res"
					}
				}
			}
		}
		fc.ParamNames, fc.ParamTypes, fc.ResultTypes = pnames, ptypes, rtypes
		fc.Results = rnames
		sigIn := func(extra ...string) string {
			var ps []string
			for i := range pnames {
				ps = append(ps, pnames[i]+" "+ptypes[i])
			}
			ps = append(ps, extra...)
			return strings.Join(ps, ", ")
		}
		var resDecl []string
		for i := range rnames {
			resDecl = append(resDecl, rnames[i]+" "+rtypes[i])
		}
		emit := func(c *Clause, name string, extra []string, withResults bool) {
			c.Fn = name
			ex := append([]string{}, extra...)
			if withResults {
				ex = append(ex, resDecl...)
			}
			e := rewriteExpr(applyLets(fc, c.Text))
			noteImports(e)
			fmt.Fprintf(&body, "//line %s:%d\nfunc %s(%s) bool { return %s }\n", fc.File, c.Line, name, sigIn(ex...), e)
		}
		for i, c := range fc.Requires {
			emit(c, fmt.Sprintf("govc__%s__req%d", fc.Mangled, i), nil, false)
		}
		for i, c := range fc.Ensures {
			emit(c, fmt.Sprintf("govc__%s__ens%d", fc.Mangled, i), nil, true)
			// the antecedent of a top-level implication, as a function of its own (reachability audit, thorough tier)
			full := strings.TrimSpace(applyLets(fc, c.Text))
			if forallRe.FindStringSubmatch(full) == nil && findTop(full, "<==>") < 0 {
				if k := findTop(full, "==>"); k >= 0 {
					ante := &Clause{Kind: "ante", Text: full[:k], Line: c.Line}
					name := fmt.Sprintf("govc__%s__ens%d__ante", fc.Mangled, i)
					ante.Fn = name
					e := rewriteExpr(full[:k])
					noteImports(e)
					fmt.Fprintf(&body, "//line %s:%d\nfunc %s(%s) bool { return %s }\n", fc.File, c.Line, name, sigIn(resDecl...), e)
					c.Ante = ante
				}
			}
		}
		for i, c := range fc.Canaries {
			emit(c, fmt.Sprintf("govc__%s__can%d", fc.Mangled, i), nil, true)
		}
		for i, c := range fc.Defines {
			emit(c, fmt.Sprintf("govc__%s__def%d", fc.Mangled, i), nil, true)
		}
		emitMod := func(c *Clause, name string, extra []string) {
			c.Fn = name
			it := applyLets(fc, c.Text)
			var e string
			switch {
			case strings.HasSuffix(it, "[:]"):
				e = strings.TrimSuffix(it, "[:]")
			case strings.HasSuffix(it, "]") && strings.Contains(it[strings.LastIndex(it, "["):], ":"):
				// a sub-slice region: x[lo:hi]
				e = it
			case strings.HasPrefix(it, "*"):
				e = strings.TrimPrefix(it, "*")
			case strings.HasPrefix(it, "ghost:"):
				e = fmt.Sprintf("ghostRegion(%q)", strings.TrimPrefix(it, "ghost:"))
			default:
				e = "&" + it
			}
			noteImports(e)
			fmt.Fprintf(&body, "//line %s:%d\nfunc %s(%s) any { return %s }\n", fc.File, c.Line, name, sigIn(extra...), e)
		}
		for i, c := range fc.Modifies {
			emitMod(c, fmt.Sprintf("govc__%s__mod%d", fc.Mangled, i), nil)
			if c.When != nil {
				emit(c.When, fmt.Sprintf("govc__%s__mod%dwhen", fc.Mangled, i), nil, false)
			}
		}
		var loopOrds []int
		for k := range fc.Loops {
			loopOrds = append(loopOrds, k)
		}
		sort.Ints(loopOrds)
		for _, k := range loopOrds {
			lc := fc.Loops[k]
			var extra []string
			for _, b := range lc.Binds {
				extra = append(extra, b.Name+" "+b.Type)
			}
			for i, c := range lc.Invariants {
				emit(c, fmt.Sprintf("govc__%s__l%dinv%d", fc.Mangled, k, i), extra, false)
			}
			for i, c := range lc.BodyEnsures {
				emit(c, fmt.Sprintf("govc__%s__l%dbody%d", fc.Mangled, k, i), extra, false)
			}
			if lc.Decreases != nil {
				c := lc.Decreases
				c.Fn = fmt.Sprintf("govc__%s__l%ddec", fc.Mangled, k)
				e := rewriteExpr(c.Text)
				fmt.Fprintf(&body, "//line %s:%d\nfunc %s(%s) int { return %s }\n", fc.File, c.Line, c.Fn, sigIn(extra...), e)
			}
			for i, c := range lc.Modifies {
				emitMod(c, fmt.Sprintf("govc__%s__l%dmod%d", fc.Mangled, k, i), extra)
			}
		}
		for i := range ptypes {
			noteImports(ptypes[i])
		}
		for i := range rtypes {
			noteImports(rtypes[i])
		}
	}
	var pre strings.Builder
	if data, err := os.ReadFile(filepath.Join(specDir, "prelude.go.txt")); err == nil {
		pre.WriteString(string(data))
	}
	if data, err := os.ReadFile(filepath.Join(specDir, "prelude_"+pc.Name+".go.txt")); err == nil {
		pre.WriteString(string(data))
		noteImports(string(data))
	}
	sb.WriteString("// Code generated by govc; overlay only, never written to the repository.\n\n")
	fmt.Fprintf(&sb, "package %s\n\n", pc.Name)
	imports := map[string]string{}
	// import exactly what the generated text uses (string literals and comments ignored)
	cmt := regexp.MustCompile(`(?m)//.*$`)
	full := strLit.ReplaceAllString(cmt.ReplaceAllString(pre.String()+body.String(), ""), `""`)
	for name, path := range pc.Imports {
		if regexp.MustCompile(`\b` + regexp.QuoteMeta(name) + `\.`).MatchString(full) {
			imports[name] = path
		}
	}
	for n, p := range specImports {
		if regexp.MustCompile(`\b` + regexp.QuoteMeta(n) + `\.`).MatchString(full) {
			imports[n] = p
		}
	}
	_ = usedImports
	var ins []string
	for n := range imports {
		ins = append(ins, n)
	}
	sort.Strings(ins)
	if len(ins) > 0 {
		sb.WriteString("import (\n")
		for _, n := range ins {
			fmt.Fprintf(&sb, "\t%s %q\n", n, imports[n])
		}
		sb.WriteString(")\n\n")
	}
	sb.WriteString(pre.String())
	sb.WriteString(body.String())
	return sb.String(), nil
}


// applyLets expands the function block's `let name = expr` macros (later lets may use earlier ones).
func applyLets(fc *FuncContract, text string) string {
	for i := len(fc.Lets) - 1; i >= 0; i-- {
		l := fc.Lets[i]
		re := regexp.MustCompile(`\b` + regexp.QuoteMeta(l[0]) + `\b`)
		text = re.ReplaceAllLiteralString(text, "("+l[1]+")")
	}
	return text
}
