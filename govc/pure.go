package main

// Evaluation of specification code (clause functions, spec helpers, getters
// called from clauses): loop-free functions are evaluated as guarded data
// flow (if-conversion), so that a clause yields ONE term instead of forking
// the path.  No safety obligations are generated for specification code.

import (
	"fmt"

	"golang.org/x/tools/go/ssa"
)

func rpo(fn *ssa.Function) []*ssa.BasicBlock {
	seen := map[*ssa.BasicBlock]bool{}
	var post []*ssa.BasicBlock
	var dfs func(b *ssa.BasicBlock)
	dfs = func(b *ssa.BasicBlock) {
		seen[b] = true
		for _, sc := range b.Succs {
			if !seen[sc] {
				dfs(sc)
			}
		}
		post = append(post, b)
	}
	dfs(fn.Blocks[0])
	for i, j := 0, len(post)-1; i < j; i, j = i+1, j-1 {
		post[i], post[j] = post[j], post[i]
	}
	return post
}

func (s *State) evalPure(fn *ssa.Function, args []Value, free []Value) []Value {
	if fn.Blocks == nil {
		unsup("specification calls %s which has no body", fn)
	}
	if len(loopHeaders(fn)) > 0 {
		// loops with concrete trip counts can still be run on the single path
		fr0 := s.depth
		_ = fr0
		return s.runPureLoop(fn, args, free)
	}
	s.depth++
	if s.depth > 60 {
		unsup("specification call depth exceeded at %s", fn)
	}
	defer func() { s.depth-- }()
	fr := &Frame{fn: fn, env: map[ssa.Value]Value{}, st: s, params: args, free: free}
	for i, p := range fn.Params {
		fr.env[p] = args[i]
	}
	for i, fv := range fn.FreeVars {
		fr.env[fv] = free[i]
	}
	guard := map[*ssa.BasicBlock]*Term{}
	edge := map[[2]int]*Term{}
	type ret struct {
		g    *Term
		vals []Value
	}
	var rets []ret
	for _, b := range rpo(fn) {
		var g *Term
		if b == fn.Blocks[0] {
			g = True
		} else {
			var gs []*Term
			for _, p := range b.Preds {
				if eg, ok := edge[[2]int{p.Index, b.Index}]; ok {
					gs = append(gs, eg)
				}
			}
			g = Or(gs...)
		}
		guard[b] = g
		if g.IsFalse() {
			continue
		}
		// phis
		for _, in := range b.Instrs {
			phi, ok := in.(*ssa.Phi)
			if !ok {
				continue
			}
			var acc Value
			for i := len(b.Preds) - 1; i >= 0; i-- {
				p := b.Preds[i]
				eg, ok := edge[[2]int{p.Index, b.Index}]
				if !ok || eg.IsFalse() {
					continue
				}
				v := fr.get(phi.Edges[i])
				if acc == nil {
					acc = v
				} else {
					acc = s.iteValue(eg, v, acc)
				}
			}
			fr.env[phi] = acc
		}
		for _, in := range b.Instrs {
			switch x := in.(type) {
			case *ssa.Phi:
			case *ssa.If:
				c := asTerm(fr.get(x.Cond))
				edge[[2]int{b.Index, b.Succs[0].Index}] = And(g, c)
				edge[[2]int{b.Index, b.Succs[1].Index}] = And(g, Not(c))
			case *ssa.Jump:
				edge[[2]int{b.Index, b.Succs[0].Index}] = g
			case *ssa.Return:
				var vs []Value
				for _, r := range x.Results {
					vs = append(vs, fr.get(r))
				}
				rets = append(rets, ret{g, vs})
			case *ssa.Panic:
				// unreachable by construction of specifications; value unspecified
			default:
				fr.exec(in)
			}
		}
	}
	if len(rets) == 0 {
		unsup("specification function %s never returns", fn)
	}
	out := rets[len(rets)-1].vals
	for i := len(rets) - 2; i >= 0; i-- {
		for k := range out {
			out[k] = s.iteValue(rets[i].g, rets[i].vals[k], out[k])
		}
	}
	return out
}

// runPureLoop executes a specification function that contains loops on the
// current path (all branch conditions must be concrete).
func (s *State) runPureLoop(fn *ssa.Function, args, free []Value) []Value {
	fr := &Frame{fn: fn, env: map[ssa.Value]Value{}, st: s, params: args, free: free, loops: map[*ssa.BasicBlock]*loopRT{}, visits: map[*ssa.BasicBlock]int{}}
	for i, p := range fn.Params {
		fr.env[p] = args[i]
	}
	for i, fv := range fn.FreeVars {
		fr.env[fv] = free[i]
	}
	var prev *ssa.BasicBlock
	b := fn.Blocks[0]
	for steps := 0; steps < 100000; steps++ {
		for _, in := range b.Instrs {
			if phi, ok := in.(*ssa.Phi); ok {
				fr.env[phi] = fr.phiValue(phi, b, prev)
			}
		}
		var next *ssa.BasicBlock
		for _, in := range b.Instrs {
			switch x := in.(type) {
			case *ssa.Phi:
			case *ssa.If:
				c := asTerm(fr.get(x.Cond))
				if c.IsTrue() {
					next = b.Succs[0]
				} else if c.IsFalse() {
					next = b.Succs[1]
				} else {
					unsup("specification function %s has a loop with a symbolic branch", fn)
				}
			case *ssa.Jump:
				next = b.Succs[0]
			case *ssa.Return:
				var vs []Value
				for _, r := range x.Results {
					vs = append(vs, fr.get(r))
				}
				return vs
			case *ssa.Panic:
				unsup("specification function %s panics", fn)
			default:
				fr.exec(in)
			}
		}
		prev, b = b, next
	}
	unsup("specification loop in %s does not terminate", fn)
	return nil
}

// evalOld re-evaluates the pure data-flow that defines v, reading the heap of
// the snapshot `old()` refers to.
func (fr *Frame) evalOld(v ssa.Value) Value {
	s := fr.st
	if s.oldSnap == nil {
		return fr.get(v)
	}
	if fr.oldEnv == nil {
		fr.oldEnv = map[ssa.Value]Value{}
	}
	var ev func(v ssa.Value) Value
	ev = func(v ssa.Value) Value {
		switch v.(type) {
		case *ssa.Const, *ssa.Global, *ssa.Function, *ssa.Builtin, *ssa.Parameter, *ssa.FreeVar:
			return fr.get(v)
		}
		if x, ok := fr.oldEnv[v]; ok {
			return x
		}
		in, ok := v.(ssa.Instruction)
		if !ok {
			unsup("old(): cannot re-evaluate %T", v)
		}
		switch in.(type) {
		case *ssa.Phi:
			unsup("old(e): e must not contain && or || (phi)")
		case *ssa.Alloc, *ssa.MakeClosure, *ssa.MakeInterface, *ssa.MakeSlice:
			return fr.get(v)
		}
		// evaluate operands first
		shadow := &Frame{fn: fr.fn, env: map[ssa.Value]Value{}, st: s, params: fr.params, free: fr.free}
		for _, op := range in.Operands(nil) {
			if *op == nil {
				continue
			}
			switch (*op).(type) {
			case *ssa.Const, *ssa.Global, *ssa.Function, *ssa.Builtin:
				continue
			}
			shadow.env[*op] = ev(*op)
		}
		shadow.exec(in)
		r := shadow.env[v]
		fr.oldEnv[v] = r
		return r
	}
	// swap heap
	cur, curLog := s.heap, s.log
	merged := make(map[int]Value, len(cur))
	for k, x := range cur {
		if _, ok := s.oldSnap.heap[k]; ok {
			continue
		}
		// not in the snapshot: either allocated later by the code (keep current contents: ghost cells of the
		// clause itself) or a pre-existing object materialised later (its contents at the snapshot were its initial ones)
		if o := s.objIndex[k]; o != nil && !o.Fresh {
			merged[k] = o.Init
		} else {
			merged[k] = x
		}
	}
	for k, x := range s.oldSnap.heap {
		merged[k] = x
	}
	s.heap = merged
	s.log = curLog[:s.oldSnap.logLen]
	savedFull := s.fullLog
	if s.fullLog == nil {
		s.fullLog = curLog
	}
	s.inOld++
	defer func() { s.heap, s.log = cur, curLog; s.inOld--; s.fullLog = savedFull }()
	return ev(v)
}

func (s *State) quantify(cv *ClosureV, existential bool) *Term {
	fn := cv.Fn
	if len(fn.Params) != 1 {
		unsup("forall expects a one-parameter function")
	}
	so, ok := sortOf(fn.Params[0].Type())
	if !ok || so.Kind != KBV {
		unsup("forall over %s", fn.Params[0].Type())
	}
	k := s.freshVar("k."+fn.Params[0].Name(), so)
	r := s.evalPure(fn, []Value{k}, cv.Bindings)
	body := asTerm(r[0])
	if existential {
		return Not(Forall(k, Not(body)))
	}
	return Forall(k, body)
}

var _ = fmt.Sprintf
