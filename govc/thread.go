package main

// Maps, channels, goroutines, select: thread-local abstraction (DESIGN §2.7).

import (
	"go/types"
	"strings"

	"golang.org/x/tools/go/ssa"
)

// MapContents: a map as (domain, values) over scalar keys; entries written on
// this path are kept as an association list over a symbolic base.
type MapContents struct {
	KeyT, ElemT types.Type
	Base        string // name of the symbolic base map ("" = empty)
	Keys        []*Term
	Vals        []Value // nil = deleted
}

func (fr *Frame) mapUpdate(x *ssa.MapUpdate) {
	s := fr.st
	m, ok := fr.get(x.Map).(*MapV)
	if !ok {
		unsup("map update on %T", fr.get(x.Map))
	}
	s.check("safety:nilmap@"+fr.loc(x), Not(m.Nil))
	mc, ok := s.contents(m.Obj).(*MapContents)
	if !ok {
		unsup("update of opaque map")
	}
	k := s.keyTerm(fr.get(x.Key))
	n := &MapContents{KeyT: mc.KeyT, ElemT: mc.ElemT, Base: mc.Base, Keys: append(append([]*Term{}, mc.Keys...), k), Vals: append(append([]Value{}, mc.Vals...), fr.get(x.Value))}
	s.heap[m.Obj.ID] = n
}

func (s *State) mapDelete(m *MapV, key Value) {
	mc, ok := s.contents(m.Obj).(*MapContents)
	if !ok {
		unsup("delete on opaque map")
	}
	n := &MapContents{KeyT: mc.KeyT, ElemT: mc.ElemT, Base: mc.Base, Keys: append(append([]*Term{}, mc.Keys...), s.keyTerm(key)), Vals: append(append([]Value{}, mc.Vals...), nil)}
	s.heap[m.Obj.ID] = n
}

func (s *State) keyTerm(v Value) *Term {
	switch x := v.(type) {
	case *Term:
		return x
	case *PtrV:
		return s.ptrID(x)
	case *StructV:
		// struct keys: concatenation of the field keys (injective)
		var k *Term
		for _, f := range x.Fields {
			ft := s.keyTerm(f)
			if ft.Sort.Kind == KBool {
				ft = Ite(ft, Const(1, 1), Const(1, 0))
			}
			if k == nil {
				k = ft
			} else {
				k = Concat(k, ft)
			}
		}
		if k == nil {
			k = Const(1, 0)
		}
		return k
	}
	unsup("map key of %T", v)
	return nil
}

func (s *State) mapLen(m *MapV) *Term {
	return s.freshVar("maplen", BV(64))
}

// mapGet returns (present, value) of key k.
func (s *State) mapGet(mc *MapContents, k *Term, name string) (*Term, Value) {
	var present *Term
	var val Value
	if mc.Base == "" {
		present = False
		val = s.zeroValue(mc.ElemT)
	} else {
		ks := k.Sort
		present = App("mapdom_"+mc.Base, BoolSort, k)
		_ = ks
		val = s.mapBaseValue(mc, k)
	}
	merge := func(c *Term, a, b Value) (out Value) {
		// values that cannot be merged into one symbolic value (pointers to different objects) become arbitrary:
		// a sound over-approximation of the looked-up value (the presence bit stays exact)
		defer func() {
			if r := recover(); r != nil {
				if _, ok := r.(unsupported); !ok {
					panic(r)
				}
				out = s.symValue(mc.ElemT, "mapget.any")
			}
		}()
		return s.iteValue(c, a, b)
	}
	for i, kk := range mc.Keys {
		hit := Eq(k, kk)
		if hit.IsFalse() {
			continue
		}
		if mc.Vals[i] == nil {
			present = Ite(hit, False, present)
			val = merge(hit, s.zeroValue(mc.ElemT), val)
		} else {
			present = Ite(hit, True, present)
			val = merge(hit, mc.Vals[i], val)
		}
	}
	// a missing key yields the zero value
	if !present.IsTrue() {
		val = merge(present, val, s.zeroValue(mc.ElemT))
	}
	return present, val
}

func (s *State) mapBaseValue(mc *MapContents, k *Term) Value {
	if so, ok := sortOf(mc.ElemT); ok {
		return App("mapval_"+mc.Base, so, k)
	}
	if f := s.mapBaseFn[mc.Base]; f != nil {
		return f(k)
	}
	if st, ok := mc.ElemT.Underlying().(*types.Struct); ok && st.NumFields() == 0 {
		return s.zeroValue(mc.ElemT)
	}
	if isOpaqueStruct(mc.ElemT) == "time.Time" {
		return &OpaqueV{Kind: "time.Time", T: App("mapval_"+mc.Base, USort("Time"), k)}
	}
	return s.symValueAt(mc.ElemT, "mapval_"+mc.Base, k)
}

func (fr *Frame) lookup(x *ssa.Lookup) Value {
	s := fr.st
	switch m := fr.get(x.X).(type) {
	case *ConstMapV:
		return s.constMapLookup(m, fr.get(x.Index), x.CommaOk, fr.loc(x))
	case *MapV:
		var present *Term
		var val Value
		if m.Obj == nil {
			present, val = False, s.zeroValue(x.X.Type().Underlying().(*types.Map).Elem())
		} else {
			mc, ok := s.contents(m.Obj).(*MapContents)
			if !ok {
				unsup("lookup in opaque map")
			}
			present, val = s.mapGet(mc, s.keyTerm(fr.get(x.Index)), m.Obj.Name)
		}
		if x.CommaOk {
			return &TupleV{Vals: []Value{val, present}}
		}
		return val
	case *StringV:
		idx := toIndex(fr.get(x.Index), x.Index.Type())
		s.check("safety:index@"+fr.loc(x), And(CmpBV("bvsle", Const(64, 0), idx), CmpBV("bvslt", idx, m.Len)))
		return m.Arr.Select(idx)
	}
	unsup("lookup on %T", fr.get(x.X))
	return nil
}


// ---- thread-local abstraction (DESIGN 2.7) ----------------------------------------------------
// The engine is sequential.  `go f()` is recorded and skipped; a receive yields an arbitrary value; a send is
// recorded; select picks any case.  Every such event goes to the ghost log, so contracts can speak about the
// order of this function's own communication.  Nothing is claimed about what peers do or when.

func (s *State) chanName(v Value) string {
	if c, ok := v.(*ChanV); ok && c.Obj != nil {
		n := c.Obj.Name
		if n == "ctx.Done" || n == "time.After" {
			return n
		}
		// channels are called after the variable or field that holds them: "(ch).chWrite" -> "chWrite"
		if i := strings.LastIndexAny(n, ".)"); i >= 0 {
			n = n[i+1:]
		}
		return n
	}
	return "?"
}

func (s *State) logEvent(callee string, target Value, args ...Value) {
	s.log = append(s.log, LogEntry{Callee: callee, Target: target, Args: args, Arr: &ArrZero{W: 8}, Off: Const(64, 0), N: Const(64, 0),
		RetN: Const(64, 0), Err: s.zeroValue(errorType())})
}

func (fr *Frame) rangeStart(x *ssa.Range) Value {
	s := fr.st
	switch m := fr.get(x.X).(type) {
	case *MapV:
		// ghost iteration state: position in an arbitrary enumeration of the keys without repetition
		it := &OpaqueV{Kind: "mapiter", Aux: map[string]Value{"map": m, "pos": Const(64, 0)}}
		o := s.newObj(x.Type(), it, "mapiter", true)
		return &PtrV{Nil: False, Obj: o}
	}
	unsup("range over %T in %s", fr.get(x.X), fr.fn)
	return nil
}

func (fr *Frame) rangeNext(x *ssa.Next) Value {
	s := fr.st
	p, ok := fr.get(x.Iter).(*PtrV)
	if !ok {
		unsup("next on %T", fr.get(x.Iter))
	}
	it := s.contents(p.Obj).(*OpaqueV)
	m := it.Aux["map"].(*MapV)
	mt := x.Iter.(*ssa.Range).X.Type().Underlying().(*types.Map)
	// arbitrary: either exhausted, or the next key (some element of the map not yet visited)
	okT := s.freshVar("range.more", BoolSort)
	key := s.symValue(mt.Key(), "range.key")
	val := s.symValue(mt.Elem(), "range.val")
	if m.Obj != nil {
		if mc, isMC := s.contents(m.Obj).(*MapContents); isMC {
			// an entry produced by range is in the map NOW (entries deleted before they are reached are not produced)
			// and comes with its current value
			present, cur := s.mapGet(mc, s.keyTerm(key), m.Obj.Name)
			s.assume(Implies(okT, present))
			val = cur
		}
	}
	s.logEvent("range.next", m, okT, key)
	s.log[len(s.log)-1].ArgT = []types.Type{types.Typ[types.Bool], mt.Key()}
	s.rangeKeys = append(s.rangeKeys, key)
	return &TupleV{Vals: []Value{okT, key, val}}
}

func (fr *Frame) goStmt(x *ssa.Go) {
	s := fr.st
	name := "?"
	switch f := x.Call.Value.(type) {
	case *ssa.Function:
		name = shortFn(f)
	case *ssa.MakeClosure:
		fn := f.Fn.(*ssa.Function)
		name = shortFn(fn)
		// captured cells the goroutine may write are shared from now on
		for i, b := range f.Bindings {
			if closureWrites(fn, i) {
				if p, ok := fr.get(b).(*PtrV); ok && p.Obj != nil {
					p.Obj.Shared = true
				}
			}
		}
	}
	var args []Value
	for _, a := range x.Call.Args {
		args = append(args, fr.get(a))
	}
	s.logEvent("go", nil, append([]Value{&StringV{Lit: &name, Len: Const(64, uint64(len(name))), Arr: &ArrBytes{B: []byte(name)}}}, args...)...)
}

// closureWrites: does fn (or a closure nested in it) store through its i-th free variable?
func closureWrites(fn *ssa.Function, i int) bool {
	if i >= len(fn.FreeVars) {
		return true
	}
	fv := fn.FreeVars[i]
	for _, ref := range *fv.Referrers() {
		switch r := ref.(type) {
		case *ssa.Store:
			if r.Addr == ssa.Value(fv) {
				return true
			}
		case *ssa.UnOp:
		case *ssa.MakeClosure:
			for j, b := range r.Bindings {
				if b == ssa.Value(fv) && closureWrites(r.Fn.(*ssa.Function), j) {
					return true
				}
			}
		default:
			return true
		}
	}
	return false
}

func (fr *Frame) send(x *ssa.Send) {
	s := fr.st
	ch := fr.get(x.Chan)
	s.blocking++
	s.logEvent("send", ch, fr.get(x.X))
	s.log[len(s.log)-1].ArgT = []types.Type{x.X.Type()}
}

func (fr *Frame) recv(x *ssa.UnOp, ch Value) Value {
	s := fr.st
	et := x.X.Type().Underlying().(*types.Chan).Elem()
	v := s.symValue(et, "recv."+s.chanName(ch))
	s.blocking++
	s.logEvent("recv", ch, v)
	s.log[len(s.log)-1].ArgT = []types.Type{et}
	if x.CommaOk {
		return &TupleV{Vals: []Value{v, s.freshVar("recv.ok", BoolSort)}}
	}
	return v
}

func (fr *Frame) selectStmt(x *ssa.Select) Value {
	s := fr.st
	n := len(x.States)
	alts := n
	if !x.Blocking {
		alts = n + 1
	}
	d := s.decide(alts, "select")
	s.selectCount++
	if x.Blocking {
		s.blocking++
	}
	idx := d
	if d == n {
		idx = -1
	}
	vals := []Value{Const(64, uint64(int64(idx))), s.freshVar("select.ok", BoolSort)}
	for i, st := range x.States {
		chv := fr.get(st.Chan)
		if st.Dir == types.RecvOnly {
			et := st.Chan.Type().Underlying().(*types.Chan).Elem()
			if i == idx {
				v := s.symValue(et, "recv."+s.chanName(chv))
				s.logEvent("recv", chv, v)
				s.log[len(s.log)-1].ArgT = []types.Type{et}
				vals = append(vals, v)
			} else {
				vals = append(vals, s.zeroValue(et))
			}
		} else if i == idx {
			s.logEvent("send", chv, fr.get(st.Send))
			s.log[len(s.log)-1].ArgT = []types.Type{st.Send.Type()}
		}
	}
	if idx == -1 {
		s.logEvent("select.default", nil)
	}
	return &TupleV{Vals: vals}
}
