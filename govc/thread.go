package main

// Maps, channels, goroutines, select: thread-local abstraction (DESIGN §2.7).

import (
	"go/types"

	"golang.org/x/tools/go/ssa"
)

// MapContents: a map as (domain, values) over scalar keys; entries written on
// this path are kept as an association list over a symbolic base.
type MapContents struct {
	KeyT, ElemT types.Type
	Base        string // name of the symbolic base map ("" = empty)
	Keys        []*Term
	Vals        []Value // nil = deleted
}

func (fr *Frame) mapUpdate(x *ssa.MapUpdate) {
	s := fr.st
	m, ok := fr.get(x.Map).(*MapV)
	if !ok {
		unsup("map update on %T", fr.get(x.Map))
	}
	s.check("safety:nilmap@"+fr.loc(x), Not(m.Nil))
	mc, ok := s.contents(m.Obj).(*MapContents)
	if !ok {
		unsup("update of opaque map")
	}
	k := asTerm(fr.get(x.Key))
	n := &MapContents{KeyT: mc.KeyT, ElemT: mc.ElemT, Base: mc.Base, Keys: append(append([]*Term{}, mc.Keys...), k), Vals: append(append([]Value{}, mc.Vals...), fr.get(x.Value))}
	s.heap[m.Obj.ID] = n
}

func (s *State) mapDelete(m *MapV, key Value) {
	mc, ok := s.contents(m.Obj).(*MapContents)
	if !ok {
		unsup("delete on opaque map")
	}
	n := &MapContents{KeyT: mc.KeyT, ElemT: mc.ElemT, Base: mc.Base, Keys: append(append([]*Term{}, mc.Keys...), asTerm(key)), Vals: append(append([]Value{}, mc.Vals...), nil)}
	s.heap[m.Obj.ID] = n
}

func (s *State) mapLen(m *MapV) *Term {
	return s.freshVar("maplen", BV(64))
}

// mapGet returns (present, value) of key k.
func (s *State) mapGet(mc *MapContents, k *Term, name string) (*Term, Value) {
	var present *Term
	var val Value
	if mc.Base == "" {
		present = False
		val = s.zeroValue(mc.ElemT)
	} else {
		ks := k.Sort
		present = App("mapdom_"+mc.Base, BoolSort, k)
		_ = ks
		val = s.mapBaseValue(mc, k)
	}
	for i, kk := range mc.Keys {
		hit := Eq(k, kk)
		if hit.IsFalse() {
			continue
		}
		if mc.Vals[i] == nil {
			present = Ite(hit, False, present)
			val = s.iteValue(hit, s.zeroValue(mc.ElemT), val)
		} else {
			present = Ite(hit, True, present)
			val = s.iteValue(hit, mc.Vals[i], val)
		}
	}
	// a missing key yields the zero value
	if !present.IsTrue() {
		val = s.iteValue(present, val, s.zeroValue(mc.ElemT))
	}
	return present, val
}

func (s *State) mapBaseValue(mc *MapContents, k *Term) Value {
	if so, ok := sortOf(mc.ElemT); ok {
		return App("mapval_"+mc.Base, so, k)
	}
	if f := s.mapBaseFn[mc.Base]; f != nil {
		return f(k)
	}
	unsup("symbolic map %s with non-scalar values", mc.Base)
	return nil
}

func (fr *Frame) lookup(x *ssa.Lookup) Value {
	s := fr.st
	switch m := fr.get(x.X).(type) {
	case *MapV:
		var present *Term
		var val Value
		if m.Obj == nil {
			present, val = False, s.zeroValue(x.X.Type().Underlying().(*types.Map).Elem())
		} else {
			mc, ok := s.contents(m.Obj).(*MapContents)
			if !ok {
				unsup("lookup in opaque map")
			}
			present, val = s.mapGet(mc, asTerm(fr.get(x.Index)), m.Obj.Name)
		}
		if x.CommaOk {
			return &TupleV{Vals: []Value{val, present}}
		}
		return val
	case *StringV:
		idx := toIndex(fr.get(x.Index), x.Index.Type())
		s.check("safety:index@"+fr.loc(x), And(CmpBV("bvsle", Const(64, 0), idx), CmpBV("bvslt", idx, m.Len)))
		return m.Arr.Select(idx)
	}
	unsup("lookup on %T", fr.get(x.X))
	return nil
}

func (fr *Frame) rangeStart(x *ssa.Range) Value {
	unsup("range over map/string in %s", fr.fn)
	return nil
}

func (fr *Frame) rangeNext(x *ssa.Next) Value {
	unsup("range next in %s", fr.fn)
	return nil
}

func (fr *Frame) goStmt(x *ssa.Go) {
	unsup("go statement in %s", fr.fn)
}

func (fr *Frame) send(x *ssa.Send) {
	unsup("channel send in %s", fr.fn)
}

func (fr *Frame) selectStmt(x *ssa.Select) Value {
	unsup("select in %s", fr.fn)
	return nil
}

func (fr *Frame) recv(x *ssa.UnOp, ch Value) Value {
	unsup("channel receive in %s", fr.fn)
	return nil
}
