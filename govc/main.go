package main

import (
	"fmt"
	"golang.org/x/tools/go/packages"
	"golang.org/x/tools/go/ssa"
	"golang.org/x/tools/go/ssa/ssautil"
)

var _ = packages.Load
var _ ssa.Value
var _ = ssautil.AllPackages

func main() { fmt.Println("govc") }
