package main

import (
	"flag"
	"fmt"
	"os"
	"path/filepath"
	"runtime"
	"sort"
	"strings"
	"time"
)

var verifDir = "/verif"
var repoDir = "/repo"

func main() {
	if len(os.Args) < 2 {
		fmt.Fprintln(os.Stderr, "usage: govc verify|check|replay|selftest ...")
		os.Exit(2)
	}
	if d := os.Getenv("GOVC_VERIF"); d != "" {
		verifDir = d
	}
	if d := os.Getenv("GOVC_REPO"); d != "" {
		repoDir = d
	}
	defer cleanupScratch()
	switch os.Args[1] {
	case "verify":
		cmdVerify(os.Args[2:])
	case "check":
		rc := cmdCheck(os.Args[2:])
		cleanupScratch()
		os.Exit(rc)
	case "gen":
		cmdGen(os.Args[2:])
	case "pin-names":
		cmdPinNames(os.Args[2:])
	default:
		fmt.Fprintln(os.Stderr, "unknown command", os.Args[1])
		os.Exit(2)
	}
}

// cmdPinNames writes `params (...)` and `returns (...)` into the header of every contract of the given packages that
// does not carry them yet, from the names the code uses now.  From then on the contract owns those names and a
// renamed parameter or named result in the code no longer detaches it.
func cmdPinNames(args []string) {
	for _, rel := range args {
		pc, files, _, err := loadPkgContracts(repoDir, rel, relToImport(rel))
		if err != nil {
			fmt.Println("error:", err)
			continue
		}
		if _, err := genOverlay(pc, files, filepath.Join(verifDir, "spec")); err != nil {
			fmt.Println("error:", err)
			continue
		}
		byFile := map[string][]*FuncContract{}
		for _, fc := range pc.Funcs {
			if !fc.Lemma && !fc.Unbound {
				byFile[fc.File] = append(byFile[fc.File], fc)
			}
		}
		for file, fcs := range byFile {
			data, err := os.ReadFile(file)
			if err != nil {
				fmt.Println("error:", err)
				continue
			}
			lines := strings.Split(string(data), "\n")
			n := 0
			for _, fc := range fcs {
				l := lines[fc.Line-1]
				names := fc.ParamNames[len(fc.Captures):]
				add := ""
				if !strings.Contains(l, " params ") && (len(names) > 0 || strings.Contains(fc.QualName, "$")) {
					add += " params (" + strings.Join(names, ", ") + ")"
				}
				tail := ""
				if !strings.Contains(l, " returns ") && len(fc.Results) > 0 {
					tail = " returns (" + strings.Join(fc.Results, ", ") + ")"
				}
				if add == "" && tail == "" {
					continue
				}
				// header order: func NAME params (...) captures (...) returns (...)
				k := len(l)
				for _, kw := range []string{" captures ", " returns "} {
					if j := strings.Index(l, kw); j >= 0 && j < k {
						k = j
					}
				}
				lines[fc.Line-1] = strings.TrimRight(l[:k], " ") + add + l[k:] + tail
				n++
			}
			if n > 0 {
				os.WriteFile(file, []byte(strings.Join(lines, "\n")), 0o644)
			}
			fmt.Printf("%s: %d headers pinned\n", file, n)
		}
	}
}

// cmdGen prints the generated overlay of a package (debugging).
func cmdGen(args []string) {
	for _, rel := range args {
		pc, files, _, err := loadPkgContracts(repoDir, rel, relToImport(rel))
		if err != nil {
			fmt.Println("error:", err)
			continue
		}
		txt, err := genOverlay(pc, files, filepath.Join(verifDir, "spec"))
		if err != nil {
			fmt.Println("error:", err)
		}
		fmt.Println(txt)
	}
}

// cmdVerify: development entry point.  govc verify -pkgs pkg/x25,pkg/frame 'pkg/x25:(*X25).Write' ...
func cmdVerify(args []string) {
	fs := flag.NewFlagSet("verify", flag.ExitOnError)
	pkgs := fs.String("pkgs", "", "comma separated package dirs relative to the repo")
	timeout := fs.Int("t", 10, "solver timeout (s)")
	verbose := fs.Bool("v", false, "verbose")
	keep := fs.String("keep", "", "directory for failed queries")
	all := fs.Bool("all", false, "wait for all solvers")
	bound := fs.Int("bound", 0, "bounded stand-in: set the loop contracts aside and unroll up to this many symbolic iterations")
	fs.Parse(args)
	rels := strings.Split(*pkgs, ",")
	t0 := time.Now()
	ld, err := load(repoDir, rels, filepath.Join(verifDir, "spec"))
	if err != nil {
		fmt.Println("LOAD ERROR:", err)
		os.Exit(1)
	}
	for _, b := range ld.bindErrors {
		fmt.Println("BIND:", b)
	}
	fmt.Printf("loaded in %.1fs\n", time.Since(t0).Seconds())
	var obls []*Obligation
	targets := fs.Args()
	if len(targets) == 0 {
		for _, rel := range rels {
			for _, fc := range ld.pcs[rel].Funcs {
				targets = append(targets, rel+":"+fc.QualName)
			}
		}
	}
	for _, t := range targets {
		i := strings.Index(t, ":")
		rel, qual := t[:i], t[i+1:]
		sp := ld.eng.pkgs[relToImport(rel)]
		fn := findFunc(ld.eng.prog, sp, qual)
		if fn == nil {
			fmt.Println("no such function:", t)
			continue
		}
		fc := ld.eng.contracts[fn]
		if fc == nil {
			fc = &FuncContract{QualName: qual, Loops: map[int]*LoopContract{}}
			for _, p := range fn.Params {
				fc.ParamNames = append(fc.ParamNames, p.Name())
			}
		}
		t1 := time.Now()
		var rep *FuncReport
		if *bound > 0 {
			rep = ld.eng.verifyFuncBounded(fn, fc, *bound)
		} else {
			rep = ld.eng.verifyFunc(fn, fc)
		}
		fmt.Printf("== %s: %d instrs, %d paths (%d completed), %d obligations, %.2fs\n", rep.Name, rep.Instrs, rep.Paths, rep.Completed, len(rep.Obligations), time.Since(t1).Seconds())
		for _, u := range rep.Unsupported {
			fmt.Println("   UNSUPPORTED:", u)
		}
		if len(rep.Ends) > 0 {
			fmt.Println("   path ends:", rep.Ends)
		}
		for _, u := range rep.Unmodelled {
			fmt.Println("   unmodelled call:", u)
		}
		for _, u := range rep.Notes {
			fmt.Println("   note:", u)
		}
		obls = append(obls, rep.Obligations...)
	}
	t2 := time.Now()
	vs := discharge(obls, dischargeOpts{timeoutS: *timeout, all: *all, workers: runtime.NumCPU()})
	fmt.Printf("solved %d distinct queries (from %d obligations) in %.1fs\n", len(vs), len(obls), time.Since(t2).Seconds())
	sums := summarize(vs)
	nd, nf, nu := 0, 0, 0
	for _, ns := range sums {
		status := "ok"
		if len(ns.Failed) > 0 {
			status = "FAILED"
			nf++
		} else if len(ns.Unknown) > 0 {
			status = "UNKNOWN"
			nu++
		} else {
			nd++
		}
		if *verbose || status != "ok" {
			var sv []string
			for k, n := range ns.Solvers {
				sv = append(sv, fmt.Sprintf("%s:%d", k, n))
			}
			sort.Strings(sv)
			fmt.Printf("  %-8s %-70s %d/%d  %.2fs %s\n", status, ns.Name, ns.Discharged, ns.Total, ns.Time, strings.Join(sv, ","))
			for _, v := range append(ns.Failed, ns.Unknown...) {
				fmt.Printf("      path=%s status=%s solver=%s %s\n", v.O.Path, v.Result.Status, v.Result.Solver, firstLine(v.Result.Output))
				if *keep != "" {
					fmt.Println("      query:", saveQuery(*keep, v))
				}
			}
		}
	}
	fmt.Printf("names: %d ok, %d failed, %d unknown\n", nd, nf, nu)
}

