package main

// Trusted models of library functions (assumed contracts, listed in every
// evidence file) and the ghost functions of the contract prelude.

import (
	"fmt"
	"go/types"
	"math"
	"strings"

	"golang.org/x/tools/go/ssa"
)

func float32bits(f float32) uint32 { return math.Float32bits(f) }
func float64bits(f float64) uint64 { return math.Float64bits(f) }

type intrinsicFn func(s *State, fn *ssa.Function, args []Value, where string) []Value
type invokeFn func(s *State, recv *IfaceV, args []Value, where string) []Value

var trustedDoc = map[string]string{}

func (e *Engine) use(name string) { e.trustedUsed[name] = true }

func (e *Engine) inModule(fn *ssa.Function) bool {
	if fn.Pkg == nil {
		if fn.Parent() != nil {
			return e.inModule(fn.Parent())
		}
		if fn.Origin() != nil {
			return e.inModule(fn.Origin())
		}
		// synthetic wrappers / bound methods
		return true
	}
	return strings.HasPrefix(fn.Pkg.Pkg.Path(), e.modulePrefix)
}

func (e *Engine) inlineOK(fn *ssa.Function) bool { return true }

func (e *Engine) invokeIntrinsic(full string) invokeFn {
	if h, ok := invokeTable[full]; ok {
		e.use("iface:" + full)
		return h
	}
	return nil
}

func (e *Engine) intrinsic(fn *ssa.Function, name string) intrinsicFn {
	if e.specPure[fn] || (fn.Origin() != nil && e.specPure[fn.Origin()]) {
		base := fn.Name()
		if fn.Origin() != nil {
			base = fn.Origin().Name()
		}
		if h, ok := ghostTable[base]; ok {
			return h
		}
		if strings.HasPrefix(base, "uf") && fn.Parent() == nil {
			return ghostUF
		}
		return nil
	}
	if h, ok := libTable[name]; ok {
		e.use(name)
		return h
	}
	return nil
}

// ---- ghost prelude --------------------------------------------------------------

var ghostTable map[string]intrinsicFn
var libTable map[string]intrinsicFn
var invokeTable map[string]invokeFn

func init() {
	ghostTable = map[string]intrinsicFn{
		"forall": func(s *State, fn *ssa.Function, args []Value, where string) []Value {
			return []Value{s.quantify(args[0].(*ClosureV), false)}
		},
		"exists": func(s *State, fn *ssa.Function, args []Value, where string) []Value {
			return []Value{s.quantify(args[0].(*ClosureV), true)}
		},
		"ghostRegion": func(s *State, fn *ssa.Function, args []Value, where string) []Value {
			return []Value{&OpaqueV{Kind: "ghostRegion", Aux: map[string]Value{"name": args[0]}}}
		},
		"crcFold": ghostCrcFold,
		"specCrcStep": func(s *State, fn *ssa.Function, args []Value, where string) []Value {
			return []Value{s.crcStep(asTerm(args[0]), asTerm(args[1]))}
		},
		"sameArray": func(s *State, fn *ssa.Function, args []Value, where string) []Value {
			a, b := args[0].(*SliceV), args[1].(*SliceV)
			if a.Obj == nil && a.lazy != nil && s.assuming > 0 {
				// result placeholder of a callee: bind to the same backing array
				a.Obj, a.lazy = b.object(), nil
			}
			if a.object() != b.object() {
				return []Value{False}
			}
			return []Value{Eq(a.Off, b.Off)}
		},
		// aliased(p, q): precondition "p and q are the same pointer"; only as a top-level conjunct of requires.
		// At function entry it makes the two symbolic pointers denote one object; at call sites it is checked.
		"aliased": func(s *State, fn *ssa.Function, args []Value, where string) []Value {
			unwrap := func(v Value) *PtrV {
				if iv, ok := v.(*IfaceV); ok && iv.Type.IsConst() {
					v = iv.alts[int(iv.Type.Val)]
				}
				p, ok := v.(*PtrV)
				if !ok {
					unsup("aliased of %T", v)
				}
				return p
			}
			a, b := unwrap(args[0]), unwrap(args[1])
			if s.entry == nil {
				// evaluating requires of the function under verification
				switch {
				case a.Obj == nil && a.lazy != nil:
					a.Obj, a.lazy = b.object(), nil
				case b.Obj == nil && b.lazy != nil:
					b.Obj, b.lazy = a.object(), nil
				}
				if a.object() != b.object() {
					return []Value{And(a.Nil, b.Nil)}
				}
				return []Value{Eq(a.Nil, b.Nil)}
			}
			return []Value{s.ptrEq(a, b)}
		},
		"freshBytes": func(s *State, fn *ssa.Function, args []Value, where string) []Value {
			a := args[0].(*SliceV)
			if s.assuming > 0 {
				// results of callees are distinct objects by construction; remember that the callee allocated it
				if o := a.object(); o != nil {
					o.Fresh = true
				}
				return []Value{True}
			}
			o := a.object()
			return []Value{BoolConst(o == nil || (o.Fresh && o.ID > s.allocBase))}
		},
		"freshPtr": func(s *State, fn *ssa.Function, args []Value, where string) []Value {
			if s.assuming > 0 {
				v := args[0]
				if iv, ok := v.(*IfaceV); ok && iv.Type.IsConst() {
					v = iv.alts[int(iv.Type.Val)]
				}
				if p, ok := v.(*PtrV); ok {
					if o := p.object(); o != nil {
						o.Fresh = true
					}
				}
				return []Value{True}
			}
			v := args[0]
			if iv, ok := v.(*IfaceV); ok && iv.Type.IsConst() {
				v = iv.alts[int(iv.Type.Val)]
			}
			p, ok := v.(*PtrV)
			if !ok {
				unsup("freshPtr of %T", v)
			}
			o := p.object()
			// fresh = allocated after the state `old` refers to: the function entry in a postcondition, the start of
			// the iteration in a loop body clause (so an object allocated once before the loop is NOT fresh there)
			base := s.allocBase
			if s.oldSnap != nil && s.oldSnap.maxObj > base {
				base = s.oldSnap.maxObj
			}
			return []Value{Or(p.Nil, BoolConst(o != nil && o.Fresh && o.ID > base && len(p.Path) == 0))}
		},
		"unchangedBytes": func(s *State, fn *ssa.Function, args []Value, where string) []Value {
			a := args[0].(*SliceV)
			o := a.object()
			if o == nil || s.oldSnap == nil {
				return []Value{True}
			}
			oldv, ok := s.oldSnap.heap[o.ID]
			if !ok {
				oldv = o.Init
			}
			cur := s.contents(o)
			if oldv == cur {
				return []Value{True}
			}
			oa, ca := oldv.(*ArrayV), cur.(*ArrayV)
			k := s.freshVar("k.unch", BV(64))
			body := Implies(And(CmpBV("bvsle", Const(64, 0), k), CmpBV("bvslt", k, ca.N)), Eq(oa.Arr.Select(k), ca.Arr.Select(k)))
			return []Value{Forall(k, body)}
		},
		"dynIs": func(s *State, fn *ssa.Function, args []Value, where string) []Value {
			iv, ok := args[0].(*IfaceV)
			if !ok {
				unsup("dynIs on %T", args[0])
			}
			// args[0] is `any` holding the interface value converted: unwrap
			name := args[1].(*StringV).litOr("")
			id, ok := 0, false
			if ty := s.eng.resolveTypeName(name); ty != nil {
				// "[*]pkg.Type" names a real type of a loaded package: always the id of THAT type
				id, ok = typeID(ty), true
			}
			if !ok {
				id, ok = typeIDs[name]
			}
			if !ok {
				for _, ty := range typeByID {
					if shortType(ty) == name {
						id, ok = typeID(ty), true
					}
				}
			}
			if !ok {
				id = namedTypeID(name)
			}
			return []Value{Eq(iv.Type, Const(32, uint64(id)))}
		},
		"streamSlice": func(s *State, fn *ssa.Function, args []Value, where string) []Value {
			ov := s.bufioOf(args[0], where)
			st := ov.Aux["stream"].(*ArrayV)
			bo := args[0].(*PtrV).object()
			vo := s.streamView[bo.ID]
			if vo == nil {
				vo = s.newObj(types.NewArray(types.Typ[types.Uint8], 0), st, "streamview", true)
				vo.Ghost = "streamview"
				if s.streamView == nil {
					s.streamView = map[int]*Obj{}
				}
				s.streamView[bo.ID] = vo
			}
			return []Value{&SliceV{Obj: vo, Off: asTerm(args[1]), Len: asTerm(args[2]), Cap: asTerm(args[2]), Elem: types.Typ[types.Uint8]}}
		},
		// --- bufio ghost stream
		"streamAt": func(s *State, fn *ssa.Function, args []Value, where string) []Value {
			ov := s.bufioOf(args[0], where)
			return []Value{ov.Aux["stream"].(*ArrayV).Arr.Select(asTerm(args[1]))}
		},
		"streamPos": func(s *State, fn *ssa.Function, args []Value, where string) []Value {
			return []Value{s.bufioOf(args[0], where).Aux["pos"]}
		},
		"streamAvail": func(s *State, fn *ssa.Function, args []Value, where string) []Value {
			return []Value{s.bufioOf(args[0], where).Aux["avail"]}
		},
		"streamErr": func(s *State, fn *ssa.Function, args []Value, where string) []Value {
			return []Value{s.bufioOf(args[0], where).Aux["terr"]}
		},
		// --- ghost call log (indices relative to the entry of the function the clause belongs to)
		"logLen": func(s *State, fn *ssa.Function, args []Value, where string) []Value {
			return []Value{Const(64, uint64(len(s.log)-s.logBase()))}
		},
		"logN": func(s *State, fn *ssa.Function, args []Value, where string) []Value {
			return []Value{s.logEntry(args[0]).N}
		},
		"logByte": func(s *State, fn *ssa.Function, args []Value, where string) []Value {
			e := s.logEntry(args[0])
			return []Value{e.Arr.Select(Add(e.Off, asTerm(args[1])))}
		},
		"logBytesAre": func(s *State, fn *ssa.Function, args []Value, where string) []Value {
			// logBytesAre(i, str): the byte argument of entry i is exactly the bytes of str
			e := s.logEntry(args[0])
			want := args[1].(*StringV)
			got := &StringV{Arr: &ArrCopy{Base: &ArrZero{W: 8}, DstOff: Const(64, 0), Src: e.Arr, SrcOff: e.Off, N: e.N}, Len: e.N}
			return []Value{s.stringEq(got, want)}
		},
		"logErr": func(s *State, fn *ssa.Function, args []Value, where string) []Value {
			return []Value{s.logEntry(args[0]).Err}
		},
		"logRet": func(s *State, fn *ssa.Function, args []Value, where string) []Value {
			return []Value{s.logEntry(args[0]).RetN}
		},
		"logCallee": func(s *State, fn *ssa.Function, args []Value, where string) []Value {
			e := s.logEntry(args[0])
			want := args[1].(*StringV).litOr("")
			if e.Callee == "?" || e.Callee == "none" {
				return []Value{App("logcallee_"+sanitize(want), BoolSort, e.N)}
			}
			return []Value{BoolConst(e.Callee == want)}
		},
		"chanCap": func(s *State, fn *ssa.Function, args []Value, where string) []Value {
			// chanCap(c): the capacity c was made with (an uninterpreted function of the channel's identity when it was
			// not made in the function under verification)
			c, ok := args[0].(*ChanV)
			if !ok {
				unsup("chanCap of %T", args[0])
			}
			if c.Obj != nil {
				if ov, ok := s.contents(c.Obj).(*OpaqueV); ok && ov.Kind == "chan" && ov.T != nil {
					return []Value{ov.T}
				}
				return []Value{App("chan_cap", BV(64), Const(64, uint64(c.Obj.ID)))}
			}
			return []Value{Const(64, 0)}
		},
		"logGo": func(s *State, fn *ssa.Function, args []Value, where string) []Value {
			// logGo(i, name): entry i is a go statement starting the function called name
			e := s.logEntry(args[0])
			want := args[1].(*StringV).litOr("")
			if e.Callee == "?" || e.Callee == "none" {
				return []Value{s.unknownBool("logGo")}
			}
			if e.Callee != "go" || len(e.Args) == 0 {
				return []Value{BoolConst(false)}
			}
			sv, ok := e.Args[0].(*StringV)
			return []Value{BoolConst(ok && sv.litOr("") == want)}
		},
		"logIsTo": func(s *State, fn *ssa.Function, args []Value, where string) []Value {
			e := s.logEntry(args[0])
			wr, ok := args[1].(*IfaceV)
			if !ok {
				unsup("logIsTo: %T", args[1])
			}
			return []Value{And(Eq(e.targetType(), wr.Type), Eq(e.targetHandle(), wr.Handle))}
		},
		"logIsBuf": func(s *State, fn *ssa.Function, args []Value, where string) []Value {
			e := s.logEntry(args[0])
			b := args[1].(*SliceV)
			if e.BufObj == nil {
				return []Value{App("logisbuf", BoolSort, e.N)}
			}
			return []Value{And(BoolConst(e.BufObj == b.object()), Eq(e.Off, b.Off), Eq(e.N, b.Len))}
		},
		"logDeadlineFresh": func(s *State, fn *ssa.Function, args []Value, where string) []Value {
			e := s.logEntry(args[0])
			d := asTerm(args[1])
			if len(e.Args) < 1 {
				return []Value{s.unknownBool("logDeadlineFresh")}
			}
			tv, ok := e.Args[0].(*OpaqueV)
			if !ok || tv.T == nil {
				return []Value{s.unknownBool("logDeadlineFresh")}
			}
			// the deadline is now+d for a time.Now() taken during this call and not before the previous logged call
			for _, now := range s.nowCalls[e.NowsBefore:] {
				if tv.T == App("time_add", USort("Time"), now, d) {
					return []Value{True}
				}
			}
			return []Value{False}
		},
		"logIs": func(s *State, fn *ssa.Function, args []Value, where string) []Value {
			// logIs(i, kind, name): entry i is a channel event ("recv","send","close") on the channel called name
			e := s.logEntry(args[0])
			kind := args[1].(*StringV).litOr("")
			name := args[2].(*StringV).litOr("")
			if e.Callee == "?" || e.Callee == "none" {
				return []Value{s.unknownBool("logIs")}
			}
			return []Value{BoolConst(e.Callee == kind && s.chanName(e.Target) == name)}
		},
		"logArg": func(s *State, fn *ssa.Function, args []Value, where string) []Value {
			e := s.logEntry(args[0])
			k := asTerm(args[1])
			if !k.IsConst() || int(k.Val) >= len(e.Args) {
				return []Value{s.symValue(types.NewInterfaceType(nil, nil), "nologarg")}
			}
			v := e.Args[k.Val]
			if iv, ok := v.(*IfaceV); ok {
				return []Value{iv}
			}
			tid := 0
			var ty types.Type
			if int(k.Val) < len(e.ArgT) {
				ty = e.ArgT[k.Val]
			}
			switch x := v.(type) {
			case *PtrV:
				if ty == nil && x.Obj != nil {
					ty = types.NewPointer(x.Obj.Type)
				}
			}
			if ty != nil {
				tid = typeID(ty)
			}
			if tid == 0 {
				return []Value{&IfaceV{Type: Const(32, uint64(namedTypeID("opaque:logarg"))), Handle: Const(64, 0), alts: map[int]Value{}}}
			}
			return []Value{&IfaceV{Type: Const(32, uint64(tid)), Handle: Const(64, 0), alts: map[int]Value{tid: v}}}
		},
		"logArgIsPtr": func(s *State, fn *ssa.Function, args []Value, where string) []Value {
			e := s.logEntry(args[0])
			k := asTerm(args[1])
			if !k.IsConst() || int(k.Val) >= len(e.Args) {
				return []Value{s.unknownBool("logArgIsPtr")}
			}
			want := args[2]
			if iv, ok := want.(*IfaceV); ok && iv.Type.IsConst() {
				want = iv.alts[int(iv.Type.Val)]
			}
			a, ok1 := e.Args[k.Val].(*PtrV)
			b, ok2 := want.(*PtrV)
			if !ok1 || !ok2 {
				return []Value{s.unknownBool("logArgIsPtr")}
			}
			return []Value{s.ptrEq(a, b)}
		},
		"logRetErr": func(s *State, fn *ssa.Function, args []Value, where string) []Value {
			return []Value{s.logEntry(args[0]).Err}
		},
		"lastRecv": func(s *State, fn *ssa.Function, args []Value, where string) []Value {
			// lastRecv(name): the value most recently received from the channel called name (as `any`)
			name := args[0].(*StringV).litOr("")
			for i := len(s.log) - 1; i >= 0; i-- {
				e := s.log[i]
				if e.Callee == "recv" && s.chanName(e.Target) == name && len(e.Args) > 0 {
					if iv, ok := e.Args[0].(*IfaceV); ok {
						return []Value{iv}
					}
					if len(e.ArgT) > 0 {
						tid := typeID(e.ArgT[0])
						return []Value{&IfaceV{Type: Const(32, uint64(tid)), Handle: Const(64, 0), alts: map[int]Value{tid: e.Args[0]}}}
					}
				}
			}
			return []Value{s.symValue(types.NewInterfaceType(nil, nil), "norecv")}
		},
		"logFind": func(s *State, fn *ssa.Function, args []Value, where string) []Value {
			// logFind(kind, name, k): index of the k-th entry whose callee is kind (and, for channel events, whose
			// channel is called name), relative to the log base; -1 when there is none
			kind := args[0].(*StringV).litOr("")
			name := args[1].(*StringV).litOr("")
			k := asTerm(args[2])
			if !k.IsConst() {
				unsup("logFind with symbolic k")
			}
			cnt := 0
			for i := s.logBase(); i < len(s.log); i++ {
				e := s.log[i]
				if e.Callee != kind {
					continue
				}
				if name != "" && s.chanName(e.Target) != name {
					continue
				}
				if uint64(cnt) == k.Val {
					return []Value{Const(64, uint64(i-s.logBase()))}
				}
				cnt++
			}
			return []Value{Const(64, ^uint64(0))}
		},
		"logCount": func(s *State, fn *ssa.Function, args []Value, where string) []Value {
			kind := args[0].(*StringV).litOr("")
			cnt := 0
			if s.cutLoopAt >= 0 && s.logBase() < s.cutLoopAt {
				// the events of the iterations of a cut loop are not in the log: a count over a range that spans
				// the loop would be a claim about a log the engine does not have
				unsup("logCount over a range that contains a loop cut by an invariant")
			}
			for i := s.logBase(); i < len(s.log); i++ {
				if s.log[i].Callee == kind {
					cnt++
				}
			}
			return []Value{Const(64, uint64(cnt))}
		},
		"logCountTo": func(s *State, fn *ssa.Function, args []Value, where string) []Value {
			// logCountTo(w): how many recorded events since the call started have w as their target
			wr, ok := args[0].(*IfaceV)
			if !ok {
				unsup("logCountTo: %T", args[0])
			}
			if s.cutLoopAt >= 0 && s.logBase() < s.cutLoopAt {
				unsup("logCountTo over a range that contains a loop cut by an invariant")
			}
			cnt := Const(64, 0)
			for i := s.logBase(); i < len(s.log); i++ {
				e := &s.log[i]
				c := And(Eq(e.targetType(), wr.Type), Eq(e.targetHandle(), wr.Handle))
				cnt = Add(cnt, Ite(c, Const(64, 1), Const(64, 0)))
			}
			return []Value{cnt}
		},
		"blockingOps": func(s *State, fn *ssa.Function, args []Value, where string) []Value {
			return []Value{Const(64, uint64(s.blocking))}
		},
		"logRetInt": func(s *State, fn *ssa.Function, args []Value, where string) []Value {
			e := s.logEntry(args[0])
			k := asTerm(args[1])
			if k.IsConst() && int(k.Val) < len(e.Rets) {
				if t, ok := e.Rets[k.Val].(*Term); ok && t.Sort.Kind == KBV {
					return []Value{ZExt(64, t)}
				}
			}
			return []Value{s.freshVar("nologret", BV(64))}
		},
		"logRetBool": func(s *State, fn *ssa.Function, args []Value, where string) []Value {
			e := s.logEntry(args[0])
			if len(e.Rets) == 1 {
				if t, ok := e.Rets[0].(*Term); ok && t.Sort.Kind == KBool {
					return []Value{t}
				}
			}
			return []Value{s.freshVar("nologretbool", BoolSort)}
		},
		"logArgDuration": func(s *State, fn *ssa.Function, args []Value, where string) []Value {
			e := s.logEntry(args[0])
			k := asTerm(args[1])
			if k.IsConst() && int(k.Val) < len(e.Args) {
				if t, ok := e.Args[k.Val].(*Term); ok {
					return []Value{t}
				}
			}
			return []Value{s.freshVar("nologarg", BV(64))}
		},
		"rvField": func(s *State, fn *ssa.Function, args []Value, where string) []Value {
			// rvField(v, name): value last written by reflect SetUint into field name of the message v was built as
			iv, ok := args[0].(*IfaceV)
			if !ok {
				unsup("rvField of %T", args[0])
			}
			name := args[1].(*StringV).litOr("?")
			if st := s.rvStore[iv.Handle.id]; st != nil {
				if x, ok := st[name]; ok {
					return []Value{x}
				}
			}
			return []Value{App("rv_uint_"+sanitize("ptr/elem/field:"+name), BV(64), iv.Handle)}
		},
		"rvFieldsSet": func(s *State, fn *ssa.Function, args []Value, where string) []Value {
			iv, ok := args[0].(*IfaceV)
			if !ok {
				unsup("rvFieldsSet of %T", args[0])
			}
			return []Value{Const(64, uint64(len(s.rvStore[iv.Handle.id])))}
		},
		"newValue": func(s *State, fn *ssa.Function, args []Value, where string) []Value {
			// newValue(x): x holds a value created by reflect.New after the state `old` refers to (function entry in a
			// postcondition, start of the iteration in a loop body clause): not a value that existed before
			iv, ok := args[0].(*IfaceV)
			if !ok {
				unsup("newValue of %T", args[0])
			}
			at, isNew := s.rvNewAt[iv.Handle.id]
			base := 0
			if s.oldSnap != nil {
				base = s.oldSnap.logLen
			}
			return []Value{BoolConst(isNew && at >= base)}
		},
		"sameDynType": func(s *State, fn *ssa.Function, args []Value, where string) []Value {
			a, ok1 := args[0].(*IfaceV)
			b, ok2 := args[1].(*IfaceV)
			if !ok1 || !ok2 {
				unsup("sameDynType")
			}
			return []Value{Eq(a.Type, b.Type)}
		},
		"timeSub": func(s *State, fn *ssa.Function, args []Value, where string) []Value {
			return []Value{App("time_sub", BV(64), args[0].(*OpaqueV).T, args[1].(*OpaqueV).T)}
		},
		"lastNow": func(s *State, fn *ssa.Function, args []Value, where string) []Value {
			k := asTerm(args[0])
			if k.IsConst() && int(k.Val) < len(s.nowCalls) {
				return []Value{&OpaqueV{Kind: "time.Time", T: s.nowCalls[k.Val]}}
			}
			return []Value{&OpaqueV{Kind: "time.Time", T: s.freshVar("nonow", USort("Time"))}}
		},
		"logRetAny": func(s *State, fn *ssa.Function, args []Value, where string) []Value {
			e := s.logEntry(args[0])
			k := asTerm(args[1])
			if !k.IsConst() || int(k.Val) >= len(e.Rets) {
				return []Value{s.symValue(types.NewInterfaceType(nil, nil), "nologret")}
			}
			v := e.Rets[k.Val]
			if iv, ok := v.(*IfaceV); ok {
				return []Value{iv}
			}
			if p, ok := v.(*PtrV); ok && p.Elem != nil {
				// a pointer result seen as `any`: same construction as MakeInterface
				tid := typeID(types.NewPointer(p.Elem))
				h := Const(64, 0)
				if p.Obj != nil {
					h = Const(64, uint64(p.Obj.ID))
				}
				return []Value{&IfaceV{Type: Const(32, uint64(tid)), Handle: h, Static: types.NewInterfaceType(nil, nil), alts: map[int]Value{tid: p}}}
			}
			unsup("logRetAny of %T", v)
			return nil
		},
		"mapHasPtr": func(s *State, fn *ssa.Function, args []Value, where string) []Value {
			mv := args[0]
			if x, ok := mv.(*IfaceV); ok && x.Type.IsConst() {
				mv = x.alts[int(x.Type.Val)]
			}
			m, ok := mv.(*MapV)
			if !ok {
				unsup("mapHasPtr on %T", mv)
			}
			iv := args[1]
			if x, ok := iv.(*IfaceV); ok && x.Type.IsConst() {
				iv = x.alts[int(x.Type.Val)]
			}
			mc, ok := s.contents(m.Obj).(*MapContents)
			if !ok {
				unsup("mapHasPtr on opaque map")
			}
			pr, _ := s.mapGet(mc, s.keyTerm(iv), "")
			return []Value{pr}
		},
		"mapHasKey": func(s *State, fn *ssa.Function, args []Value, where string) []Value {
			unwrap := func(v Value) Value {
				if x, ok := v.(*IfaceV); ok && x.Type.IsConst() {
					return x.alts[int(x.Type.Val)]
				}
				return v
			}
			m, ok := unwrap(args[0]).(*MapV)
			if !ok {
				unsup("mapHasKey on %T", args[0])
			}
			mc, ok := s.contents(m.Obj).(*MapContents)
			if !ok {
				unsup("mapHasKey on opaque map")
			}
			pr, _ := s.mapGet(mc, s.keyTerm(unwrap(args[1])), "")
			return []Value{pr}
		},
		"logArgInt": func(s *State, fn *ssa.Function, args []Value, where string) []Value {
			e := s.logEntry(args[0])
			k := asTerm(args[1])
			if !k.IsConst() || int(k.Val) >= len(e.Args) {
				return []Value{s.freshVar("logarg", BV(64))}
			}
			return []Value{e.Args[k.Val]}
		},
		"logArgBool": func(s *State, fn *ssa.Function, args []Value, where string) []Value {
			e := s.logEntry(args[0])
			k := asTerm(args[1])
			if !k.IsConst() || int(k.Val) >= len(e.Args) {
				return []Value{s.freshVar("logarg", BoolSort)}
			}
			t, ok := e.Args[k.Val].(*Term)
			if !ok || t.Sort.Kind != KBool {
				unsup("logArgBool: argument %d is not a bool", k.Val)
			}
			return []Value{t}
		},
		// --- SHA-256 as an uninterpreted absorbing function
		"shaInit": func(s *State, fn *ssa.Function, args []Value, where string) []Value {
			return []Value{App("sha_init", BV(64))}
		},
		"absorb1": func(s *State, fn *ssa.Function, args []Value, where string) []Value {
			return []Value{App("sha_absorb1", BV(64), asTerm(args[0]), asTerm(args[1]))}
		},
		"absorbN": func(s *State, fn *ssa.Function, args []Value, where string) []Value {
			sl := args[1].(*SliceV)
			return []Value{s.absorbN(asTerm(args[0]), s.sliceArr(sl), sl.Off, sl.Len)}
		},
		"digestByte": func(s *State, fn *ssa.Function, args []Value, where string) []Value {
			return []Value{App("sha_digest", BV(8), asTerm(args[0]), asTerm(args[1]))}
		},
		// --- time
		"sinceNanos": func(s *State, fn *ssa.Function, args []Value, where string) []Value {
			// the value returned by the most recent time.Since call on this path
			if s.lastSince == nil {
				return []Value{s.freshVar("since.none", BV(64))}
			}
			return []Value{s.lastSince}
		},
		"sinceRefIs2015": func(s *State, fn *ssa.Function, args []Value, where string) []Value {
			return []Value{BoolConst(s.lastSinceRef == "2015-01-01T00:00:00Z")}
		},
		"unixMicro": func(s *State, fn *ssa.Function, args []Value, where string) []Value {
			return []Value{App("time_unixmicro", BV(64), args[0].(*OpaqueV).T)}
		},
	}

	libTable = map[string]intrinsicFn{
		"(*bufio.Reader).ReadByte": libReadByte,
		"(*bufio.Reader).Peek":     libPeek,
		"(*bufio.Reader).Discard":  libDiscard,
		"io.ReadFull":              libReadFull,
		"bufio.NewReaderSize":      libNewReader,
		"bufio.NewReader":          libNewReader,
		"fmt.Errorf": func(s *State, fn *ssa.Function, args []Value, where string) []Value {
			return []Value{s.opaqueErr("fmt.Errorf")}
		},
		"errors.New": func(s *State, fn *ssa.Function, args []Value, where string) []Value {
			return []Value{s.opaqueErr("errors.New")}
		},
		"fmt.Sprintf": func(s *State, fn *ssa.Function, args []Value, where string) []Value {
			l := s.freshVar("sprintf.len", BV(64))
			s.lenAssume(l)
			return []Value{&StringV{Arr: &ArrVar{Name: s.freshName("sprintf"), W: 8}, Len: l}}
		},
		"(encoding/binary.littleEndian).Uint16":    leGet(2),
		"(encoding/binary.littleEndian).Uint32":    leGet(4),
		"(encoding/binary.littleEndian).Uint64":    leGet(8),
		"(encoding/binary.littleEndian).PutUint16": lePut(2),
		"(encoding/binary.littleEndian).PutUint32": lePut(4),
		"(encoding/binary.littleEndian).PutUint64": lePut(8),
		"(encoding/binary.bigEndian).Uint16":       beGet(2),
		"(encoding/binary.bigEndian).Uint32":       beGet(4),
		"(encoding/binary.bigEndian).Uint64":       beGet(8),
		"(encoding/binary.bigEndian).PutUint16":    bePut(2),
		"(encoding/binary.bigEndian).PutUint32":    bePut(4),
		"(encoding/binary.bigEndian).PutUint64":    bePut(8),
		"math.Float32bits":     func(s *State, fn *ssa.Function, args []Value, where string) []Value { return []Value{args[0]} },
		"math.Float32frombits": func(s *State, fn *ssa.Function, args []Value, where string) []Value { return []Value{args[0]} },
		"math.Float64bits":     func(s *State, fn *ssa.Function, args []Value, where string) []Value { return []Value{args[0]} },
		"math.Float64frombits": func(s *State, fn *ssa.Function, args []Value, where string) []Value { return []Value{args[0]} },
		"crypto/sha256.New": func(s *State, fn *ssa.Function, args []Value, where string) []Value {
			o := s.newObj(types.Typ[types.Uint64], &OpaqueV{Kind: "sha", T: App("sha_init", BV(64))}, "sha256", true)
			tid := namedTypeID("opaque:sha256.digest")
			return []Value{&IfaceV{Type: Const(32, uint64(tid)), Handle: Const(64, uint64(o.ID)), alts: map[int]Value{tid: &PtrV{Nil: False, Obj: o}}}}
		},
		"time.Since": func(s *State, fn *ssa.Function, args []Value, where string) []Value {
			d := s.freshVar("since.ns", BV(64))
			s.lastSince = d
			s.lastSinceRef = ""
			if ov, ok := args[0].(*OpaqueV); ok && ov.Aux != nil {
				if sv, ok := ov.Aux["literal"].(*StringV); ok {
					s.lastSinceRef = sv.litOr("")
				}
			}
			return []Value{d}
		},
		"time.Now": func(s *State, fn *ssa.Function, args []Value, where string) []Value {
			t := s.freshVar("now", USort("Time"))
			s.nowCalls = append(s.nowCalls, t)
			return []Value{&OpaqueV{Kind: "time.Time", T: t}}
		},
		"(time.Time).Add": func(s *State, fn *ssa.Function, args []Value, where string) []Value {
			return []Value{&OpaqueV{Kind: "time.Time", T: App("time_add", USort("Time"), args[0].(*OpaqueV).T, asTerm(args[1]))}}
		},
		"(time.Time).UnixMicro": func(s *State, fn *ssa.Function, args []Value, where string) []Value {
			return []Value{App("time_unixmicro", BV(64), args[0].(*OpaqueV).T)}
		},
		"(time.Time).UTC": func(s *State, fn *ssa.Function, args []Value, where string) []Value {
			// same instant; UnixMicro is location independent
			return []Value{args[0]}
		},
		"time.Unix": func(s *State, fn *ssa.Function, args []Value, where string) []Value {
			sec, ns := asTerm(args[0]), asTerm(args[1])
			t := App("time_unix", USort("Time"), sec, ns)
			// assumed: Unix(sec,nsec).UnixMicro() == sec*1e6 + nsec/1e3 for 0 <= nsec < 1e9 (else normalised first);
			// stated for the in-range case and for negative nsec in (-1e9, 0) where Go borrows one second.
			um := App("time_unixmicro", BV(64), t)
			inr := And(CmpBV("bvsle", Const(64, 0), ns), CmpBV("bvslt", ns, Const(64, 1000000000)))
			neg := And(CmpBV("bvslt", ns, Const(64, 0)), CmpBV("bvslt", Const(64, uint64(^uint64(1000000000)+1)), ns))
			mul := func(a *Term, k uint64) *Term { return BinBV("bvmul", a, Const(64, k)) }
			s.assume(Implies(inr, Eq(um, Add(mul(sec, 1000000), BinBV("bvsdiv", ns, Const(64, 1000))))))
			ns2 := Add(ns, Const(64, 1000000000))
			s.assume(Implies(neg, Eq(um, Add(mul(Sub(sec, Const(64, 1)), 1000000), BinBV("bvsdiv", ns2, Const(64, 1000))))))
			return []Value{&OpaqueV{Kind: "time.Time", T: t}}
		},
		"time.UnixMicro": func(s *State, fn *ssa.Function, args []Value, where string) []Value {
			// the instant usec microseconds after the epoch: its UnixMicro is usec, for every int64
			us := asTerm(args[0])
			t := App("time_of_unixmicro", USort("Time"), us)
			s.assume(Eq(App("time_unixmicro", BV(64), t), us))
			return []Value{&OpaqueV{Kind: "time.Time", T: t}}
		},
		"(*sync.WaitGroup).Add":  logOnly("sync.WaitGroup.Add"),
		"(*sync.WaitGroup).Done": logOnly("sync.WaitGroup.Done"),
		"(*sync.WaitGroup).Wait": logOnly("sync.WaitGroup.Wait"),
		"(*sync.Mutex).Lock":     logOnly("sync.Mutex.Lock"),
		"(*sync.Mutex).Unlock":   logOnly("sync.Mutex.Unlock"),
		"context.Background": func(s *State, fn *ssa.Function, args []Value, where string) []Value {
			return []Value{s.nonNilIface(fn.Signature.Results().At(0).Type(), "ctx.background")}
		},
		"context.WithCancel": func(s *State, fn *ssa.Function, args []Value, where string) []Value {
			s.logEvent("context.WithCancel", nil, args...)
			return []Value{s.nonNilIface(fn.Signature.Results().At(0).Type(), "ctx"), &OpaqueV{Kind: "func", T: s.freshVar("cancel.fn", BV(64))}}
		},
		"context.WithTimeout": func(s *State, fn *ssa.Function, args []Value, where string) []Value {
			s.logEvent("context.WithTimeout", nil, args...)
			return []Value{s.nonNilIface(fn.Signature.Results().At(0).Type(), "ctx"), &OpaqueV{Kind: "func", T: s.freshVar("cancel.fn", BV(64))}}
		},
		"time.After": func(s *State, fn *ssa.Function, args []Value, where string) []Value {
			o := s.newObj(fn.Signature.Results().At(0).Type(), &OpaqueV{Kind: "chan"}, "time.After", true)
			c := &ChanV{Nil: False, Obj: o}
			s.logEvent("time.After", c, args...)
			return []Value{c}
		},
		"errors.Is": func(s *State, fn *ssa.Function, args []Value, where string) []Value {
			// no wrapping modelled: Is(err, target) iff err == target
			return []Value{s.valEq(args[0], args[1])}
		},
		"errors.As": func(s *State, fn *ssa.Function, args []Value, where string) []Value {
			// As(err, &target): true iff the dynamic type of err is the type of *target (wrapping not modelled)
			err := args[0].(*IfaceV)
			tgt := args[1].(*IfaceV)
			if !tgt.Type.IsConst() {
				unsup("errors.As with unknown target type")
			}
			pt, ok := typeByID[int(tgt.Type.Val)].(*types.Pointer)
			if !ok {
				unsup("errors.As target")
			}
			return []Value{Eq(err.Type, Const(32, uint64(typeID(pt.Elem()))))}
		},
		"(time.Time).Sub": func(s *State, fn *ssa.Function, args []Value, where string) []Value {
			d := App("time_sub", BV(64), args[0].(*OpaqueV).T, args[1].(*OpaqueV).T)
			// time.Since(ref) IS time.Now().Sub(ref): a clock reading minus a reference instant given by a literal counts
			// as the most recent Since of the path (the ghost sinceNanos / sinceRefIs2015 read it)
			if ref, ok := args[1].(*OpaqueV); ok && ref.Aux != nil {
				if sv, ok := ref.Aux["literal"].(*StringV); ok {
					for _, n := range s.nowCalls {
						if n == args[0].(*OpaqueV).T {
							s.lastSince = d
							s.lastSinceRef = sv.litOr("")
						}
					}
				}
			}
			return []Value{d}
		},
		"time.NewTicker": func(s *State, fn *ssa.Function, args []Value, where string) []Value {
			// *time.Ticker with a channel C; the period is recorded
			tt := fn.Signature.Results().At(0).Type().(*types.Pointer).Elem()
			co := s.newObj(types.NewChan(types.RecvOnly, nil), &OpaqueV{Kind: "chan"}, "ticker.C", true)
			st := tt.Underlying().(*types.Struct)
			sv := &StructV{Type: tt}
			for i := 0; i < st.NumFields(); i++ {
				if st.Field(i).Name() == "C" {
					sv.Fields = append(sv.Fields, &ChanV{Nil: False, Obj: co})
				} else {
					sv.Fields = append(sv.Fields, s.symValue(st.Field(i).Type(), "ticker."+st.Field(i).Name()))
				}
			}
			o := s.newObj(tt, sv, "ticker", true)
			s.logEvent("time.NewTicker", nil, args...)
			return []Value{&PtrV{Nil: False, Obj: o, Elem: tt}}
		},
		"(*time.Ticker).Stop": logOnly("time.Ticker.Stop"),
		// --- reflect: a small value-level model.  A reflect.Value is (root handle, path); SetUint on root.Elem().FieldByName(X)
		// records X := v for that root; Uint on it reads an uninterpreted getter of the root's dynamic value.
		"reflect.TypeOf": func(s *State, fn *ssa.Function, args []Value, where string) []Value {
			iv := args[0].(*IfaceV)
			return []Value{&IfaceV{Type: Const(32, uint64(namedTypeID("opaque:reflect.rtype"))), Handle: ZExt(64, iv.Type), alts: map[int]Value{}}}
		},
		"reflect.New": func(s *State, fn *ssa.Function, args []Value, where string) []Value {
			h := s.freshVar("rv.new", BV(64))
			if s.rvNewAt == nil {
				s.rvNewAt = map[int]int{}
			}
			s.rvNewAt[h.id] = len(s.log) // when the value was created (newValue: per-iteration freshness)
			t := args[0].(*IfaceV)
			return []Value{&OpaqueV{Kind: "reflect.Value", T: h, Aux: map[string]Value{"path": strV("ptr"), "root": h, "type": t.Handle}}}
		},
		"reflect.ValueOf": func(s *State, fn *ssa.Function, args []Value, where string) []Value {
			iv := args[0].(*IfaceV)
			return []Value{&OpaqueV{Kind: "reflect.Value", T: iv.Handle, Aux: map[string]Value{"path": strV("ptr"), "root": iv.Handle, "type": ZExt(64, iv.Type)}}}
		},
		"(reflect.Value).Elem": func(s *State, fn *ssa.Function, args []Value, where string) []Value {
			v := args[0].(*OpaqueV)
			return []Value{rvPath(v, "elem")}
		},
		"(reflect.Value).Addr": func(s *State, fn *ssa.Function, args []Value, where string) []Value {
			v := args[0].(*OpaqueV)
			if r, _ := rvRoot(v); r != nil {
				return []Value{rvPath(v, "addr")}
			}
			return []Value{&OpaqueV{Kind: "reflect.Value", T: App("rv_addr", BV(64), v.T)}}
		},
		"(reflect.Value).FieldByName": func(s *State, fn *ssa.Function, args []Value, where string) []Value {
			v := args[0].(*OpaqueV)
			return []Value{rvPath(v, "field:"+args[1].(*StringV).litOr("?"))}
		},
		"(reflect.Value).SetUint": func(s *State, fn *ssa.Function, args []Value, where string) []Value {
			v := args[0].(*OpaqueV)
			root, path := rvRoot(v)
			if root == nil || !strings.HasPrefix(path, "ptr/elem/field:") {
				s.logEvent("reflect.SetUint", nil, args...)
				return nil
			}
			if s.rvStore == nil {
				s.rvStore = map[int]map[string]*Term{}
			}
			if s.rvStore[root.id] == nil {
				s.rvStore[root.id] = map[string]*Term{}
			}
			s.rvStore[root.id][strings.TrimPrefix(path, "ptr/elem/field:")] = asTerm(args[1])
			return nil
		},
		"(reflect.Value).Uint": func(s *State, fn *ssa.Function, args []Value, where string) []Value {
			v := args[0].(*OpaqueV)
			root, path := rvRoot(v)
			if root == nil {
				// the unsigned value held by an arbitrary reflect.Value: a function of the value's identity
				return []Value{App("rv_uint_val", BV(64), v.T)}
			}
			if st := s.rvStore[root.id]; st != nil {
				if x, ok := st[strings.TrimPrefix(path, "ptr/elem/field:")]; ok {
					return []Value{x}
				}
			}
			return []Value{App("rv_uint_"+sanitize(path), BV(64), root)}
		},
		"(reflect.Value).Interface": func(s *State, fn *ssa.Function, args []Value, where string) []Value {
			v := args[0].(*OpaqueV)
			root, _ := rvRoot(v)
			if root == nil {
				// Interface() of an arbitrary reflect.Value: dynamic type and payload are functions of its identity;
				// a pointer payload denotes ONE cell per (value, type), so code and contract see the same memory
				h := v.T
				iv := &IfaceV{Type: App("rv_dyntype", BV(32), h), Handle: h, alts: map[int]Value{}, Static: types.NewInterfaceType(nil, nil)}
				iv.mk = func(tid int) Value {
					key := fmt.Sprintf("%d/%d", h.id, tid)
					if s.rvCells == nil {
						s.rvCells = map[string]Value{}
					}
					if c, ok := s.rvCells[key]; ok {
						return c
					}
					ty := typeByID[tid]
					if ty == nil {
						return nil
					}
					c := s.symValue(ty, "rvcell")
					if p, ok := c.(*PtrV); ok {
						p.Nil = False
						if o := p.object(); o != nil {
							o.Ghost = "rvcell"
						}
					}
					s.rvCells[key] = c
					return c
				}
				return []Value{iv}
			}
			ty := Const(32, 0)
			if t, ok := v.Aux["type"].(*Term); ok {
				ty = Extract(31, 0, t)
			}
			// a value built by reflect.New(TypeOf(m).Elem()) has the dynamic type of m
			return []Value{&IfaceV{Type: ty, Handle: root, alts: map[int]Value{}, Static: types.NewInterfaceType(nil, nil)}}
		},
		"bytes.Equal": func(s *State, fn *ssa.Function, args []Value, where string) []Value {
			a, b := args[0].(*SliceV), args[1].(*SliceV)
			if !(a.Len.IsConst() && b.Len.IsConst() && a.Len.Val <= 64 && b.Len.Val <= 64) {
				unsup("bytes.Equal of slices whose lengths are not small constants")
			}
			if a.Len.Val != b.Len.Val {
				return []Value{False}
			}
			eq := True
			if a.Len.Val > 0 {
				aa, ba := s.sliceArr(a), s.sliceArr(b)
				for i := uint64(0); i < a.Len.Val; i++ {
					eq = And(eq, Eq(aa.Select(Add(a.Off, Const(64, i))), ba.Select(Add(b.Off, Const(64, i)))))
				}
			}
			return []Value{eq}
		},
		"bytes.Repeat": func(s *State, fn *ssa.Function, args []Value, where string) []Value {
			b := args[0].(*SliceV)
			cnt := asTerm(args[1])
			s.check("pre:bytes.Repeat:count>=0@"+where, CmpBV("bvsle", Const(64, 0), cnt))
			if !(b.Len.IsConst() && b.Len.Val == 1) {
				unsup("bytes.Repeat of a multi-byte pattern")
			}
			v := s.sliceArr(b).Select(b.Off)
			contents := &ArrayV{Arr: &ArrFn{Base: &ArrZero{W: 8}, Lo: Const(64, 0), N: cnt, F: func(rel *Term) *Term { return v }}, N: cnt, Elem: types.Typ[types.Uint8]}
			o := s.newObj(types.NewArray(types.Typ[types.Uint8], 0), contents, "bytes.Repeat", true)
			return []Value{&SliceV{Obj: o, Off: Const(64, 0), Len: cnt, Cap: cnt, Elem: types.Typ[types.Uint8]}}
		},
	}

	invokeTable = map[string]invokeFn{
		"io.Writer.Write": func(s *State, recv *IfaceV, args []Value, where string) []Value {
			p := args[0].(*SliceV)
			n := s.freshVar("write.n", BV(64))
			err := s.symValue(errorType(), "write.err")
			s.log = append(s.log, LogEntry{Callee: "io.Writer.Write", Target: recv, Arr: s.sliceArr(p), Off: p.Off, N: p.Len, RetN: n, Err: err, BufObj: p.object()})
			return []Value{n, err}
		},
		"hash.Hash.Write": func(s *State, recv *IfaceV, args []Value, where string) []Value {
			o := s.shaObj(recv)
			p := args[0].(*SliceV)
			st := s.contents(o).(*OpaqueV)
			s.heap[o.ID] = &OpaqueV{Kind: "sha", T: s.absorbN(st.T, s.sliceArr(p), p.Off, p.Len)}
			return []Value{p.Len, s.zeroValue(errorType())}
		},
		"hash.Hash.Sum": func(s *State, recv *IfaceV, args []Value, where string) []Value {
			o := s.shaObj(recv)
			st := s.contents(o).(*OpaqueV)
			b := args[0].(*SliceV)
			if !(b.Obj == nil && b.lazy == nil) {
				unsup("hash.Sum with non-nil prefix")
			}
			h := st.T
			contents := &ArrayV{Arr: &ArrFn{Base: &ArrZero{W: 8}, Lo: Const(64, 0), N: Const(64, 32), F: func(rel *Term) *Term { return App("sha_digest", BV(8), h, rel) }}, N: Const(64, 32), Elem: types.Typ[types.Uint8]}
			no := s.newObj(types.NewArray(types.Typ[types.Uint8], 32), contents, "sum", true)
			return []Value{&SliceV{Obj: no, Off: Const(64, 0), Len: Const(64, 32), Cap: Const(64, 32), Elem: types.Typ[types.Uint8]}}
		},
		"error.Error": func(s *State, recv *IfaceV, args []Value, where string) []Value {
			l := s.freshVar("errstr.len", BV(64))
			s.lenAssume(l)
			return []Value{&StringV{Arr: &ArrVar{Name: s.freshName("errstr"), W: 8}, Len: l}}
		},
		"*.Error": func(s *State, recv *IfaceV, args []Value, where string) []Value {
			l := s.freshVar("errstr.len", BV(64))
			s.lenAssume(l)
			return []Value{&StringV{Arr: &ArrVar{Name: s.freshName("errstr"), W: 8}, Len: l}}
		},
		"github.com/bluenviron/gomavlib/v3/pkg/message.Message.GetID": func(s *State, recv *IfaceV, args []Value, where string) []Value {
			// open interface: *MessageRaw is resolved concretely; any other dynamic type is a pure function of the value
			rawID := typeIDs["*github.com/bluenviron/gomavlib/v3/pkg/message.MessageRaw"]
			other := App("msg_getid", BV(32), recv.Type, recv.Handle)
			if rawID == 0 {
				return []Value{other}
			}
			isRaw := Eq(recv.Type, Const(32, uint64(rawID)))
			if isRaw.IsFalse() {
				return []Value{other}
			}
			p := recv.alt(rawID).(*PtrV)
			saved := s.pure
			s.pure++ // reading the ID of a raw message cannot fail; avoid spurious nil obligations under the ite
			id := asTerm(s.navigate(s.contents(p.object()), []Sel{{Field: 0}}))
			s.pure = saved
			return []Value{Ite(isRaw, id, other)}
		},
		"context.Context.Done": func(s *State, recv *IfaceV, args []Value, where string) []Value {
			if s.doneChans == nil {
				s.doneChans = map[int]*ChanV{}
			}
			if c, ok := s.doneChans[recv.Handle.id]; ok {
				return []Value{c}
			}
			o := s.newObj(types.NewChan(types.RecvOnly, types.NewStruct(nil, nil)), &OpaqueV{Kind: "chan"}, "ctx.Done", false)
			c := &ChanV{Nil: False, Obj: o}
			s.doneChans[recv.Handle.id] = c
			return []Value{c}
		},
		"io.ReadWriteCloser.Close": func(s *State, recv *IfaceV, args []Value, where string) []Value {
			err := s.symValue(errorType(), "close.err")
			s.log = append(s.log, LogEntry{Callee: "io.Closer.Close", Target: recv, Arr: &ArrZero{W: 8}, Off: Const(64, 0), N: Const(64, 0), RetN: Const(64, 0), Err: err})
			return []Value{err}
		},
		"io.Closer.Close": func(s *State, recv *IfaceV, args []Value, where string) []Value {
			err := s.symValue(errorType(), "close.err")
			s.log = append(s.log, LogEntry{Callee: "io.Closer.Close", Target: recv, Arr: &ArrZero{W: 8}, Off: Const(64, 0), N: Const(64, 0), RetN: Const(64, 0), Err: err})
			return []Value{err}
		},
		"net.Conn.SetReadDeadline":  connCall("SetReadDeadline"),
		"net.Conn.SetWriteDeadline": connCall("SetWriteDeadline"),
		"net.Conn.Read":             connCall("Read"),
		"net.Conn.Write":            connCall("Write"),
		"net.Conn.Close":            connCall("Close"),
		"net.PacketConn.SetReadDeadline":  connCall("SetReadDeadline"),
		"net.PacketConn.SetWriteDeadline": connCall("SetWriteDeadline"),
		"net.PacketConn.WriteTo":    connCall("WriteTo"),
		"net.PacketConn.ReadFrom":   connCall("ReadFrom"),
		"net.PacketConn.Close":      connCall("Close"),
	}
	registerEnumModels()
	registerRTypeModels()
	registerBytesBufferModel()
}

func connCall(name string) invokeFn {
	return func(s *State, recv *IfaceV, args []Value, where string) []Value {
		e := LogEntry{Callee: "net.Conn." + name, Target: recv, Args: args, NowsBefore: s.nowsAtLastLog}
		s.nowsAtLastLog = len(s.nowCalls)
		var res []Value
		switch name {
		case "Read", "Write":
			n := s.freshVar("conn.n", BV(64))
			err := s.symValue(errorType(), "conn."+name+".err")
			e.RetN, e.Err = n, err
			if p, ok := args[0].(*SliceV); ok {
				e.Arr, e.Off, e.N = s.sliceArr(p), p.Off, p.Len
				e.BufObj = p.object()
				if name == "Read" {
					s.havocRegion(&Region{Obj: p.object(), Off: p.Off, Len: p.Len}, "conn.Read")
				}
			}
			res = []Value{n, err}
		case "WriteTo":
			n := s.freshVar("conn.n", BV(64))
			err := s.symValue(errorType(), "conn."+name+".err")
			e.RetN, e.Err = n, err
			res = []Value{n, err}
		case "ReadFrom":
			n := s.freshVar("conn.n", BV(64))
			err := s.symValue(errorType(), "conn."+name+".err")
			e.RetN, e.Err = n, err
			addr := s.symValue(recvAddrType, "conn.addr")
			if p, ok := args[0].(*SliceV); ok {
				s.havocRegion(&Region{Obj: p.object(), Off: p.Off, Len: p.Len}, "conn.ReadFrom")
			}
			res = []Value{n, addr, err}
		default:
			err := s.symValue(errorType(), "conn."+name+".err")
			e.Err = err
			res = []Value{err}
		}
		s.log = append(s.log, e)
		return res
	}
}

var recvAddrType types.Type = types.NewInterfaceType(nil, nil)

func (s *State) logBase() int {
	if s.inOld > 0 && false {
		return 0
	}
	if n := len(s.callerLogBase); n > 0 {
		return s.callerLogBase[n-1]
	}
	return 0
}

// resolveTypeName: "[*]pkgname.TypeName" -> the named type (or pointer to it) of a loaded package, nil if unknown.
func (e *Engine) resolveTypeName(name string) types.Type {
	ptr := strings.HasPrefix(name, "*")
	n := strings.TrimPrefix(name, "*")
	i := strings.LastIndex(n, ".")
	if i < 0 {
		return nil
	}
	pn, tn := n[:i], n[i+1:]
	for _, p := range e.prog.AllPackages() {
		if p.Pkg.Name() != pn || !strings.HasPrefix(p.Pkg.Path(), e.modulePrefix) {
			continue
		}
		if o, ok := p.Pkg.Scope().Lookup(tn).(*types.TypeName); ok {
			var t types.Type = o.Type()
			if ptr {
				t = types.NewPointer(t)
			}
			return t
		}
	}
	return nil
}

func (s *State) logEntry(idx Value) *LogEntry {
	i := asTerm(idx)
	if !i.IsConst() {
		unsup("symbolic ghost-log index")
	}
	k := int(i.Val) + s.logBase()
	if s.inOld > 0 && s.fullLog != nil && k >= 0 && k >= len(s.log) && k < len(s.fullLog) {
		// inside old(): an entry recorded after the old state is still the same immutable record (its arguments
		// are values, not heap reads); only logLen() is taken at the old state
		return &s.fullLog[k]
	}
	if k < 0 || k >= len(s.log) {
		// unspecified entry
		return &LogEntry{Callee: "none", Arr: &ArrVar{Name: s.freshName("nolog"), W: 8}, Off: Const(64, 0), N: s.freshVar("nolog.n", BV(64)), RetN: s.freshVar("nolog.r", BV(64)), Err: s.symValue(errorType(), "nolog.err")}
	}
	return &s.log[k]
}

func (s *State) shaObj(recv *IfaceV) *Obj {
	tid := namedTypeID("opaque:sha256.digest")
	if !(recv.Type.IsConst() && int(recv.Type.Val) == tid) {
		unsup("hash.Hash of unknown implementation")
	}
	return recv.alts[tid].(*PtrV).Obj
}

// absorbN: sha state after absorbing n bytes; unfolded byte by byte when n is a small constant.
func (s *State) absorbN(h *Term, arr Arr, off, n *Term) *Term {
	if n.IsConst() && n.Val <= 64 {
		for i := uint64(0); i < n.Val; i++ {
			h = App("sha_absorb1", BV(64), h, arr.Select(Add(off, Const(64, i))))
		}
		return h
	}
	arr, off = canonArr(arr, off, n)
	at := s.arrTerm(arr)
	return App("sha_absorbN", BV(64), h, at, off, n)
}

// arrTerm: an SMT array term for an array value (only variables are exact; anything else becomes an opaque constant).
func (s *State) arrTerm(a Arr) *Term {
	if v, ok := a.(*ArrVar); ok {
		return v.Term()
	}
	if t, ok := s.opaqueArr[a]; ok {
		return t
	}
	if s.opaqueArr == nil {
		s.opaqueArr = map[Arr]*Term{}
	}
	t := Var(s.freshName("opaque.arr"), ArrSort(a.ElemW()))
	s.opaqueArr[a] = t
	s.notes = append(s.notes, "array value abstracted to an opaque constant: "+arrDesc(a))
	return t
}

func (s *State) bufioOf(v Value, where string) *OpaqueV {
	p, ok := v.(*PtrV)
	if !ok {
		unsup("bufio reader value %T", v)
	}
	o := s.derefCheck(p, where)
	if o == nil {
		unsup("nil bufio reader in specification")
	}
	ov, ok := s.contents(o).(*OpaqueV)
	if !ok || ov.Kind != "bufio.Reader" {
		unsup("not a bufio.Reader object: %T", s.contents(o))
	}
	return ov
}

func (s *State) setBufio(v Value, ov *OpaqueV, pos *Term, bumpEpoch bool, bufmin ...*Term) {
	o := v.(*PtrV).object()
	n := &OpaqueV{Kind: ov.Kind, Aux: map[string]Value{}}
	for k, x := range ov.Aux {
		n.Aux[k] = x
	}
	n.Aux["pos"] = pos
	if len(bufmin) > 0 {
		n.Aux["bufmin"] = bufmin[0]
	} else if bumpEpoch {
		n.Aux["bufmin"] = Const(64, 0)
	}
	if bumpEpoch {
		n.Aux["epoch"] = Add(asTerm(ov.Aux["epoch"]), Const(64, 1))
		// invalidate outstanding Peek views: their contents become arbitrary
		for _, vo := range s.peekViews[o.ID] {
			if av, ok := s.contents(vo).(*ArrayV); ok {
				s.heap[vo.ID] = &ArrayV{Arr: &ArrVar{Name: s.freshName("stale.peek"), W: 8}, N: av.N, Elem: av.Elem}
			}
		}
		s.peekViews[o.ID] = nil
	}
	s.heap[o.ID] = n
}

// Assumed contract of bufio.Reader over a ghost stream (stream, pos, avail, terr):
// the transport delivers exactly stream[0:avail) in any chunking and then fails with terr forever.
func libReadByte(s *State, fn *ssa.Function, args []Value, where string) []Value {
	ov := s.bufioOf(args[0], where)
	pos, avail := asTerm(ov.Aux["pos"]), asTerm(ov.Aux["avail"])
	has := CmpBV("bvslt", pos, avail)
	if s.decide(2, "ReadByte") == 0 {
		s.assume(has)
		b := ov.Aux["stream"].(*ArrayV).Arr.Select(pos)
		bm := bufMin(ov)
		if s.proves(CmpBV("bvsle", Const(64, 1), bm)) {
			s.setBufio(args[0], ov, Add(pos, Const(64, 1)), false, Sub(bm, Const(64, 1)))
		} else {
			s.setBufio(args[0], ov, Add(pos, Const(64, 1)), true)
		}
		return []Value{b, s.zeroValue(errorType())}
	}
	s.assume(Not(has))
	return []Value{Const(8, 0), ov.Aux["terr"]}
}

func libPeek(s *State, fn *ssa.Function, args []Value, where string) []Value {
	ov := s.bufioOf(args[0], where)
	n := asTerm(args[1])
	// buffer size is at least 16 (bufio minimum); larger requests could return ErrBufferFull
	s.check("pre:bufio.Peek:0<=n<=16@"+where, And(CmpBV("bvsle", Const(64, 0), n), CmpBV("bvsle", n, Const(64, 16))))
	pos, avail := asTerm(ov.Aux["pos"]), asTerm(ov.Aux["avail"])
	enough := CmpBV("bvsle", Add(pos, n), avail)
	stream := ov.Aux["stream"].(*ArrayV).Arr
	bo := args[0].(*PtrV).object()
	if s.decide(2, "Peek") == 0 {
		s.assume(enough)
		contents := &ArrayV{Arr: &ArrCopy{Base: &ArrVar{Name: s.freshName("peekbuf"), W: 8}, DstOff: Const(64, 0), Src: stream, SrcOff: pos, N: n}, N: n, Elem: types.Typ[types.Uint8]}
		bm := bufMin(ov)
		if s.proves(CmpBV("bvsle", n, bm)) {
			// already buffered: no fill, earlier views stay valid
		} else {
			s.setBufio(args[0], ov, pos, true, n) // a fill may move the buffer: earlier views become stale
		}
		o := s.newObj(types.NewArray(types.Typ[types.Uint8], 0), contents, "peek", true)
		o.Fresh = false // a view into the reader's buffer, not memory owned by the caller
		o.Ghost = "peekview"
		s.peekViews[bo.ID] = append(s.peekViews[bo.ID], o)
		return []Value{&SliceV{Obj: o, Off: Const(64, 0), Len: n, Cap: n, Elem: types.Typ[types.Uint8]}, s.zeroValue(errorType())}
	}
	s.assume(Not(enough))
	// short: returns what is there and the transport error; position unchanged
	m := Sub(avail, pos)
	contents := &ArrayV{Arr: &ArrCopy{Base: &ArrVar{Name: s.freshName("peekbuf"), W: 8}, DstOff: Const(64, 0), Src: stream, SrcOff: pos, N: m}, N: m, Elem: types.Typ[types.Uint8]}
	s.setBufio(args[0], ov, pos, true)
	o := s.newObj(types.NewArray(types.Typ[types.Uint8], 0), contents, "peek.short", true)
	o.Ghost = "peekview"
	o.Fresh = false
	s.peekViews[bo.ID] = append(s.peekViews[bo.ID], o)
	return []Value{&SliceV{Obj: o, Off: Const(64, 0), Len: m, Cap: m, Elem: types.Typ[types.Uint8]}, ov.Aux["terr"]}
}

func libDiscard(s *State, fn *ssa.Function, args []Value, where string) []Value {
	ov := s.bufioOf(args[0], where)
	n := asTerm(args[1])
	s.check("pre:bufio.Discard:n>=0@"+where, CmpBV("bvsle", Const(64, 0), n))
	pos, avail := asTerm(ov.Aux["pos"]), asTerm(ov.Aux["avail"])
	enough := CmpBV("bvsle", Add(pos, n), avail)
	bm := bufMin(ov)
	if s.proves(CmpBV("bvsle", n, bm)) {
		// within buffered data: a pure pointer move, Peek views stay valid
		s.setBufio(args[0], ov, Add(pos, n), false, Sub(bm, n))
		return []Value{n, s.zeroValue(errorType())}
	}
	if enough.IsTrue() || s.decide(2, "Discard") == 0 {
		s.assume(enough)
		s.setBufio(args[0], ov, Add(pos, n), true)
		return []Value{n, s.zeroValue(errorType())}
	}
	s.assume(Not(enough))
	s.setBufio(args[0], ov, avail, true)
	return []Value{Sub(avail, pos), ov.Aux["terr"]}
}

func libReadFull(s *State, fn *ssa.Function, args []Value, where string) []Value {
	iv, ok := args[0].(*IfaceV)
	if !ok || !iv.Type.IsConst() {
		unsup("io.ReadFull from an unknown reader")
	}
	rp, ok := iv.alts[int(iv.Type.Val)].(*PtrV)
	if !ok {
		unsup("io.ReadFull from %T", iv.alts[int(iv.Type.Val)])
	}
	ov := s.bufioOf(rp, where)
	buf := args[1].(*SliceV)
	n := buf.Len
	pos, avail := asTerm(ov.Aux["pos"]), asTerm(ov.Aux["avail"])
	enough := CmpBV("bvsle", Add(pos, n), avail)
	stream := ov.Aux["stream"].(*ArrayV).Arr
	o := buf.object()
	if s.decide(2, "ReadFull") == 0 {
		s.assume(enough)
		if o != nil {
			av := s.arrayOf(o)
			s.heap[o.ID] = &ArrayV{Arr: &ArrCopy{Base: av.Arr, DstOff: buf.Off, Src: stream, SrcOff: pos, N: n}, N: av.N, Elem: av.Elem}
		}
		s.setBufio(rp, ov, Add(pos, n), true)
		return []Value{n, s.zeroValue(errorType())}
	}
	s.assume(Not(enough))
	s.assume(CmpBV("bvslt", Const(64, 0), n)) // a zero-length ReadFull succeeds
	if o != nil {
		s.havocRegion(&Region{Obj: o, Off: buf.Off, Len: n}, "readfull")
	}
	s.setBufio(rp, ov, avail, true)
	// io.ErrUnexpectedEOF or the transport error: in both cases a non-nil error that is not a ReadError
	return []Value{Sub(avail, pos), s.transportErr("readfull.err")}
}

func libNewReader(s *State, fn *ssa.Function, args []Value, where string) []Value {
	ov := s.symOpaque("bufio.Reader", "newbufio").(*OpaqueV)
	ov.Aux["pos"] = Const(64, 0)
	ov.Aux["source"] = args[0]
	t := fn.Signature.Results().At(0).Type().(*types.Pointer).Elem()
	o := s.newObj(t, ov, "bufio", true)
	return []Value{&PtrV{Nil: False, Obj: o, Elem: t}}
}

func leGet(w int) intrinsicFn {
	return func(s *State, fn *ssa.Function, args []Value, where string) []Value {
		b := args[1].(*SliceV)
		s.check(fmt.Sprintf("pre:binary.LittleEndian:len>=%d@%s", w, where), CmpBV("bvsle", Const(64, uint64(w)), b.Len))
		arr := s.sliceArr(b)
		var r *Term = Const(w*8, 0)
		for i := 0; i < w; i++ {
			byteT := arr.Select(Add(b.Off, Const(64, uint64(i))))
			r = BinBV("bvor", r, BinBV("bvshl", ZExt(w*8, byteT), Const(w*8, uint64(8*i))))
		}
		return []Value{r}
	}
}

func lePut(w int) intrinsicFn {
	return func(s *State, fn *ssa.Function, args []Value, where string) []Value {
		b := args[1].(*SliceV)
		v := asTerm(args[2])
		s.check(fmt.Sprintf("pre:binary.LittleEndian:len>=%d@%s", w, where), CmpBV("bvsle", Const(64, uint64(w)), b.Len))
		o := b.object()
		if o == nil {
			panic(pathEnd{"nil slice"})
		}
		av := s.arrayOf(o)
		arr := av.Arr
		for i := 0; i < w; i++ {
			arr = &ArrStore{Base: arr, Idx: Add(b.Off, Const(64, uint64(i))), Val: Extract(8*i+7, 8*i, v)}
		}
		s.heap[o.ID] = &ArrayV{Arr: arr, N: av.N, Elem: av.Elem}
		return nil
	}
}

func beGet(w int) intrinsicFn {
	return func(s *State, fn *ssa.Function, args []Value, where string) []Value {
		b := args[1].(*SliceV)
		s.check(fmt.Sprintf("pre:binary.BigEndian:len>=%d@%s", w, where), CmpBV("bvsle", Const(64, uint64(w)), b.Len))
		arr := s.sliceArr(b)
		var r *Term = Const(w*8, 0)
		for i := 0; i < w; i++ {
			byteT := arr.Select(Add(b.Off, Const(64, uint64(i))))
			r = BinBV("bvor", r, BinBV("bvshl", ZExt(w*8, byteT), Const(w*8, uint64(8*(w-1-i)))))
		}
		return []Value{r}
	}
}

func bePut(w int) intrinsicFn {
	return func(s *State, fn *ssa.Function, args []Value, where string) []Value {
		b := args[1].(*SliceV)
		v := asTerm(args[2])
		s.check(fmt.Sprintf("pre:binary.BigEndian:len>=%d@%s", w, where), CmpBV("bvsle", Const(64, uint64(w)), b.Len))
		o := b.object()
		if o == nil {
			panic(pathEnd{"nil slice"})
		}
		av := s.arrayOf(o)
		arr := av.Arr
		for i := 0; i < w; i++ {
			k := w - 1 - i
			arr = &ArrStore{Base: arr, Idx: Add(b.Off, Const(64, uint64(i))), Val: Extract(8*k+7, 8*k, v)}
		}
		s.heap[o.ID] = &ArrayV{Arr: arr, N: av.N, Elem: av.Elem}
		return nil
	}
}

// unknownBool: the answer of a ghost predicate about a log entry whose details this path does not have (an entry
// appended by a callee's contract).  When the clause is being PROVED the answer is false (the proof fails, as it
// should); when the clause is being ASSUMED (a callee's postcondition at a call site) false would silently end the
// path, so the answer is an unconstrained boolean.
func (s *State) unknownBool(tag string) *Term {
	if s.assuming > 0 {
		return s.freshVar("unknown."+tag, BoolSort)
	}
	return False
}

// crcFold(c, p, n): uninterpreted, with unfolding axioms instantiated here.
func ghostCrcFold(s *State, fn *ssa.Function, args []Value, where string) []Value {
	c := asTerm(args[0])
	p := args[1].(*SliceV)
	n := asTerm(args[2])
	arr := s.sliceArr(p)
	off := p.Off
	depth := 2
	if s.eng.boundK > 0 {
		depth = s.eng.boundK + 1 // bounded stand-in: the fold is unfolded as far as the loop is unrolled
	}
	return []Value{s.crcFoldTerm(c, arr, off, n, depth)}
}

func (s *State) crcStep(c, b *Term) *Term {
	return s.eng.definedApp(s, "specCrcStep", BV(16), c, b)
}

func (s *State) crcFoldTerm(c *Term, arr Arr, off, n *Term, depth int) *Term {
	if n.IsConst() && n.Val <= 16 {
		for i := uint64(0); i < n.Val; i++ {
			c = s.crcStep(c, arr.Select(Add(off, Const(64, i))))
		}
		return c
	}
	arr, off = canonArr(arr, off, n)
	at := s.arrTerm(arr)
	t := App("crc_fold", BV(16), c, at, off, n)
	key := t.id
	if s.foldSeen[key] || depth <= 0 || !s.unfoldCRC {
		return t
	}
	s.foldSeen[key] = true
	// unfolding axioms for this instance
	s.axioms = append(s.axioms, Implies(Eq(n, Const(64, 0)), Eq(t, c)))
	n1 := Sub(n, Const(64, 1))
	prev := s.crcFoldTerm(c, arr, off, n1, depth-1)
	s.axioms = append(s.axioms, Implies(CmpBV("bvslt", Const(64, 0), n), Eq(t, s.crcStep(prev, arr.Select(Add(off, n1))))))
	return t
}

// definedApp: application of a spec helper that is translated once into an SMT define-fun.
func (e *Engine) definedApp(s *State, name string, ret Sort, args ...*Term) *Term {
	if !e.defined[name] {
		e.defined[name] = true
		fn := e.specFunc(name)
		if fn == nil {
			unsup("spec helper %s not found", name)
		}
		var params []*Term
		var pv []Value
		for i, p := range fn.Params {
			so, _ := sortOf(p.Type())
			v := Var(fmt.Sprintf("%s.p%d", name, i), so)
			params = append(params, v)
			pv = append(pv, v)
		}
		s.pure++
		r := s.evalPure(fn, pv, nil)
		s.pure--
		sig := &FuncSig{Name: name, Ret: ret, Params: params, Body: asTerm(r[0])}
		for _, p := range params {
			sig.Args = append(sig.Args, p.Sort)
		}
		funcSigs[name] = sig
	}
	return App(name, ret, args...)
}

func (e *Engine) specFunc(name string) *ssa.Function {
	for fn := range e.specPure {
		if fn.Name() == name && fn.Parent() == nil {
			return fn
		}
	}
	return nil
}

func bufMin(ov *OpaqueV) *Term {
	if t, ok := ov.Aux["bufmin"].(*Term); ok {
		return t
	}
	return Const(64, 0)
}

// arrUF: uninterpreted functions that take (array, offset, length) and depend only on the bytes in that window.
var arrUF = map[string]int{"crc_fold": 1, "sha_absorbN": 1}

// ghostUF: a prelude function named uf* is an uninterpreted function of its arguments: scalars as they are,
// pointers by object identity, byte slices by (array, offset, length) with window congruence.
func ghostUF(s *State, fn *ssa.Function, args []Value, where string) []Value {
	name := fn.Name()
	var ts []*Term
	for _, a := range args {
		switch x := a.(type) {
		case *Term:
			ts = append(ts, x)
		case *PtrV:
			ts = append(ts, s.ptrID(x))
		case *SliceV:
			arr, off := canonArr(s.sliceArr(x), x.Off, x.Len)
			arrUF[name] = len(ts)
			ts = append(ts, s.arrTerm(arr), off, x.Len)
		default:
			unsup("argument %T of uninterpreted ghost function %s", a, name)
		}
	}
	rt := fn.Signature.Results().At(0).Type()
	so, ok := sortOf(rt)
	if !ok {
		unsup("result type of %s", name)
	}
	return []Value{App(name, so, ts...)}
}

func (e *LogEntry) targetType() *Term {
	if iv, ok := e.Target.(*IfaceV); ok {
		return iv.Type
	}
	return App("logtarget_type", BV(32), e.N)
}

func (e *LogEntry) targetHandle() *Term {
	if iv, ok := e.Target.(*IfaceV); ok {
		return iv.Handle
	}
	return App("logtarget_handle", BV(64), e.N)
}

func logOnly(name string) intrinsicFn {
	return func(s *State, fn *ssa.Function, args []Value, where string) []Value {
		s.logEvent(name, nil, args...)
		return nil
	}
}

func strV(x string) *StringV {
	return &StringV{Lit: &x, Len: Const(64, uint64(len(x))), Arr: &ArrBytes{B: []byte(x)}}
}

func rvPath(v *OpaqueV, step string) *OpaqueV {
	n := &OpaqueV{Kind: "reflect.Value", T: v.T, Aux: map[string]Value{}}
	for k, x := range v.Aux {
		n.Aux[k] = x
	}
	p := "?"
	if sv, ok := v.Aux["path"].(*StringV); ok {
		p = sv.litOr("?")
	}
	n.Aux["path"] = strV(p + "/" + step)
	return n
}

func rvRoot(v *OpaqueV) (*Term, string) {
	if v.Aux == nil {
		return nil, ""
	}
	r, ok := v.Aux["root"].(*Term)
	if !ok {
		return nil, ""
	}
	p := ""
	if sv, ok := v.Aux["path"].(*StringV); ok {
		p = sv.litOr("")
	}
	return r, p
}

func (s *State) nonNilIface(t types.Type, name string) Value {
	v := s.symValue(t, name)
	if iv, ok := v.(*IfaceV); ok {
		s.assume(Ne(iv.Type, Const(32, 0)))
	}
	return v
}
