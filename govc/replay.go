package main

// tryReplay: rebuild the solver's counterexample as inputs of the real function and run it (go test -overlay).
func (c *checkCtx) tryReplay(ns *NameSummary, v *Verdict, model, dir, safe string) string {
	return ""
}

func runExtras(c *checkCtx, cov map[string]interface{}) int { return 0 }
