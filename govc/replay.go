package main

import (
	"bytes"
	"sort"
	"encoding/json"
	"fmt"
	"os"
	"os/exec"
	"path/filepath"
	"regexp"
	"strings"
	"time"
)

// ---- replay of solver counterexamples on the real code -----------------------------------------------
// For obligations whose model translates faithfully into inputs of the real function, a test is generated from
// the model, injected with `go test -overlay` (nothing is written to /repo) and its verdict attached:
// REPLAY-CONFIRMED (the real code violates the clause on the model's input), REPLAY-NOT-REPRODUCED (the model lives
// in an abstraction: uninterpreted hash, arbitrary peer, contract of a callee) or no replay template.

var modelKV = regexp.MustCompile(`(?m)^(\S+) = (#x[0-9a-fA-F]+|#b[01]+|true|false)$`)

func parseModel(model string) map[string]uint64 {
	out := map[string]uint64{}
	for _, m := range modelKV.FindAllStringSubmatch(model, -1) {
		v := m[2]
		var u uint64
		switch {
		case v == "true":
			u = 1
		case v == "false":
			u = 0
		case strings.HasPrefix(v, "#x"):
			fmt.Sscanf(v[2:], "%x", &u)
		case strings.HasPrefix(v, "#b"):
			for _, c := range v[2:] {
				u = u<<1 | uint64(c-'0')
			}
		}
		out[m[1]] = u
	}
	return out
}

// modelBytes asks the solver for n bytes of array variable arr starting at index from, in the model of v's query.
func modelBytes(v *Verdict, arr string, from uint64, n int) []byte {
	if n <= 0 {
		return nil
	}
	if n > 600 {
		n = 600
	}
	var sb strings.Builder
	sb.WriteString("(set-option :produce-models true)\n")
	sb.WriteString(strings.Replace(v.Query, "(check-sat)", "(check-sat)\n", 1))
	sb.WriteString("(get-value (")
	for i := 0; i < n; i++ {
		fmt.Fprintf(&sb, "(select %s #x%016x) ", smtName(arr), from+uint64(i))
	}
	sb.WriteString("))\n")
	r := runSolvers(sb.String(), 30, false, "z3-new")
	if r.Status != "sat" {
		return nil
	}
	re := regexp.MustCompile(`\)\s+#x([0-9a-fA-F]{2})\)`)
	ms := re.FindAllStringSubmatch(r.Output, -1)
	if len(ms) < n {
		return nil
	}
	out := make([]byte, n)
	for i := 0; i < n; i++ {
		var u uint64
		fmt.Sscanf(ms[i][1], "%x", &u)
		out[i] = byte(u)
	}
	return out
}

func findKey(m map[string]uint64, suffix string) (string, uint64, bool) {
	var ks []string
	for k := range m {
		if strings.HasSuffix(k, suffix) {
			ks = append(ks, k)
		}
	}
	sort.Strings(ks)
	if len(ks) == 0 {
		return "", 0, false
	}
	return ks[0], m[ks[0]], true
}

func goBytes(b []byte) string {
	var sb strings.Builder
	sb.WriteString("[]byte{")
	for i, x := range b {
		if i > 0 {
			sb.WriteString(",")
		}
		fmt.Fprintf(&sb, "0x%02x", x)
	}
	sb.WriteString("}")
	return sb.String()
}

// runReplayTest injects test files into a package and returns the REPLAY lines of its output.
func (c *checkCtx) runReplayTest(pkgRel string, files map[string]string, run string) string {
	ov := map[string]map[string]string{"Replace": {}}
	for name, text := range files {
		src := filepath.Join(scratch(), "replay-"+name)
		os.WriteFile(src, []byte(text), 0o644)
		ov["Replace"][filepath.Join(repoDir, pkgRel, "zz_govc_replay_"+name)] = src
	}
	data, _ := json.Marshal(ov)
	ovFile := filepath.Join(scratch(), "replay-overlay.json")
	os.WriteFile(ovFile, data, 0o644)
	pkg := "./" + pkgRel
	if pkgRel == "." {
		pkg = "."
	}
	cmd := exec.Command("go", "test", "-overlay", ovFile, "-vet=off", "-count=1", "-timeout", "60s", "-run", run, "-v", pkg)
	cmd.Dir = repoDir
	cmd.Env = goEnv()
	var out bytes.Buffer
	cmd.Stdout = &out
	cmd.Stderr = &out
	cmd.Run()
	var keep []string
	for _, l := range strings.Split(out.String(), "\n") {
		if strings.Contains(l, "REPLAY") || strings.Contains(l, "panic:") {
			keep = append(keep, strings.TrimSpace(l))
		}
	}
	if len(keep) == 0 {
		tail := out.String()
		if len(tail) > 1500 {
			tail = tail[len(tail)-1500:]
		}
		return "replay test produced no verdict:\n" + tail
	}
	return strings.Join(keep, "\n")
}

func (c *checkCtx) tryReplay(ns *NameSummary, v *Verdict, model, dir, safe string) string {
	if v.Result.Status != "sat" {
		return ""
	}
	if c.replays >= 6 {
		return "replay skipped: replay budget of this run used up (6 replays)"
	}
	c.replays++
	m := parseModel(model)
	fn := ns.Func
	oracle, _ := os.ReadFile(filepath.Join(verifDir, "replay", "oracle_frame.go.txt"))
	switch {
	case strings.Contains(fn, "govcEnumRT_") || strings.Contains(ns.Name, "govcEnumRT_"):
		return c.replayEnum(ns, m)
	case fn == "(*x25.X25).Write":
		_, crc0, _ := findKey(m, ".crc!1")
		_, n, _ := findKey(m, "p.len!1")
		p := modelBytes(v, "p.arr!1", 0, int(n))
		test := fmt.Sprintf(`package x25

import ("fmt"; "testing")

func rpStep(c uint16, b byte) uint16 { x := c ^ uint16(b); for i := 0; i < 8; i++ { if x&1 != 0 { x = (x >> 1) ^ 0x8408 } else { x >>= 1 } }; return x }

func TestGovcReplay(t *testing.T) {
	x := &X25{crc: 0x%x}
	p := %s
	want := x.crc
	for _, b := range p { want = rpStep(want, b) }
	x.Write(p)
	if x.crc != want { fmt.Printf("REPLAY-CONFIRMED X25.Write crc0=%%#x p=%%x: got %%#x, CRC-16/MCRF4XX gives %%#x\\n", 0x%x, p, x.crc, want) } else { fmt.Println("REPLAY-NOT-REPRODUCED") }
}
`, crc0, goBytes(p), crc0)
		return c.runReplayTest("pkg/x25", map[string]string{"test.go": test}, "TestGovcReplay")
	case fn == "(frame.V2Frame).marshalTo" || fn == "(frame.V1Frame).marshalTo" || fn == "(frame.V2Frame).GenerateChecksum" || fn == "(frame.V1Frame).GenerateChecksum":
		return c.replayFrameFields(ns, v, m, string(oracle))
	case fn == "(*gomavlib.Channel).initialize" || fn == "(*frame.ReadWriter).Initialize":
		// plumbing: a node with distinct keys and ids; the channel's reader and writer must get the right ones
		test := `package gomavlib

import ("fmt"; "net"; "testing"; "github.com/bluenviron/gomavlib/v3/pkg/frame"; "github.com/bluenviron/gomavlib/v3/pkg/streamwriter")

func TestGovcReplay(t *testing.T) {
	confirmed := false
	bad := func(format string, a ...interface{}) { confirmed = true; fmt.Printf("REPLAY-CONFIRMED Channel.initialize: "+format+"\n", a...) }
	in, out := frame.NewV2Key([]byte("incoming-key-incoming-key-incomi")), frame.NewV2Key([]byte("outgoing-key-outgoing-key-outgoi"))
	for _, comp := range []byte{0, 9} {
		for _, ver := range []Version{V1, V2} {
			for _, withOut := range []bool{false, true} {
				n := &Node{OutVersion: ver, OutSystemID: 77, OutComponentID: comp, InKey: in}
				if withOut { n.OutKey = out }
				a, b := net.Pipe()
				ch := &Channel{node: n, rwc: a}
				err := ch.initialize()
				b.Close(); a.Close()
				refuse := withOut && ver != V2
				if (err != nil) != refuse { bad("version %d, out key %v: err=%v, must be refused=%v", ver, withOut, err, refuse); continue }
				if err != nil { continue }
				if ch.frameWriter == nil || ch.frameWriter.Reader == nil || ch.frameWriter.Reader.InKey != in { bad("the channel reader does not verify with the node's InKey") }
				if ch.streamWriter == nil { bad("no stream writer"); continue }
				if ch.streamWriter.Key != n.OutKey { bad("the channel writer signs with %p, the node's OutKey is %p", ch.streamWriter.Key, n.OutKey) }
				if ch.streamWriter.SystemID != 77 { bad("system id %d, configured 77", ch.streamWriter.SystemID) }
				wantComp := comp; if comp == 0 { wantComp = 1 }
				if ch.streamWriter.ComponentID != wantComp { bad("component id %d, expected %d", ch.streamWriter.ComponentID, wantComp) }
				if (ver == V2) != (ch.streamWriter.Version == streamwriter.V2) { bad("node version %d gives writer version %d", ver, ch.streamWriter.Version) }
				if ch.streamWriter.FrameWriter != ch.frameWriter.Writer { bad("the stream writer does not drive the channel's frame writer") }
			}
		}
	}
	if !confirmed { fmt.Println("REPLAY-NOT-REPRODUCED") }
}
`
		return c.runReplayTest(".", map[string]string{"test.go": test}, "TestGovcReplay")
	case fn == "(*timednetconn.conn).Read" || fn == "(*timednetconn.conn).Write":
		test := `package timednetconn

import ("fmt"; "net"; "testing"; "time")

type rpConn struct { net.Conn; events []string; deadlines []time.Time }
func (c *rpConn) SetReadDeadline(t time.Time) error { c.events = append(c.events, "rd"); c.deadlines = append(c.deadlines, t); return nil }
func (c *rpConn) SetWriteDeadline(t time.Time) error { c.events = append(c.events, "wd"); c.deadlines = append(c.deadlines, t); return nil }
func (c *rpConn) Read(p []byte) (int, error) { c.events = append(c.events, "r"); return len(p), nil }
func (c *rpConn) Write(p []byte) (int, error) { c.events = append(c.events, "w"); return len(p), nil }

func TestGovcReplay(t *testing.T) {
	rc := &rpConn{}
	c := New(200*time.Millisecond, 300*time.Millisecond, rc)
	buf := make([]byte, 4)
	confirmed := false
	for k := 0; k < 3; k++ {
		n0 := len(rc.events)
		t0 := time.Now()
		c.Read(buf)
		ev := rc.events[n0:]
		if len(ev) != 2 || ev[0] != "rd" || ev[1] != "r" || rc.deadlines[len(rc.deadlines)-1].Before(t0.Add(200*time.Millisecond)) {
			confirmed = true
			fmt.Printf("REPLAY-CONFIRMED timednetconn Read #%d: calls on the connection %v (expected a fresh read deadline, then the read)\n", k, ev)
		}
		n0 = len(rc.events)
		t0 = time.Now()
		c.Write(buf)
		ev = rc.events[n0:]
		if len(ev) != 2 || ev[0] != "wd" || ev[1] != "w" || rc.deadlines[len(rc.deadlines)-1].Before(t0.Add(300*time.Millisecond)) {
			confirmed = true
			fmt.Printf("REPLAY-CONFIRMED timednetconn Write #%d: calls on the connection %v (expected a fresh write deadline, then the write)\n", k, ev)
		}
		time.Sleep(120 * time.Millisecond)
	}
	if !confirmed { fmt.Println("REPLAY-NOT-REPRODUCED") }
}
`
		return c.runReplayTest("pkg/timednetconn", map[string]string{"test.go": test}, "TestGovcReplay")
	case fn == "message.removeEmptyBytes":
		_, n, _ := findKey(m, "buf.len!1")
		if n > 300 {
			n = 0 // the model's buffer is too long to build; the family of short buffers below is still tried
		}
		b := modelBytes(v, "buf.arr!1", 0, int(n))
		if b == nil {
			b = make([]byte, n)
		}
		test := fmt.Sprintf(`package message

import ("fmt"; "testing")

func TestGovcReplay(t *testing.T) {
	confirmed := false
	try := func(in []byte) {
		cp := append([]byte{}, in...)
		out := func() (r []byte) { defer func() { if e := recover(); e != nil { confirmed = true; fmt.Printf("REPLAY-CONFIRMED removeEmptyBytes(%%x) panics: %%v\n", in, e) } }(); return removeEmptyBytes(cp) }()
		end := len(in)
		for end > 1 && in[end-1] == 0 { end-- }
		if out != nil && (len(out) != end || string(out) != string(in[:end])) {
			confirmed = true
			fmt.Printf("REPLAY-CONFIRMED removeEmptyBytes(%%x) = %%x, the payload without its trailing zeros (at least one byte kept) is %%x\n", in, out, in[:end])
		}
	}
	try(%s)
	for n := 0; n <= 40; n++ { z := make([]byte, n); try(z); if n > 0 { z2 := make([]byte, n); z2[0] = 7; try(z2); z3 := make([]byte, n); z3[n-1] = 7; try(z3) } }
	if !confirmed { fmt.Println("REPLAY-NOT-REPRODUCED") }
}
`, goBytes(b))
		return c.runReplayTest("pkg/message", map[string]string{"test.go": test}, "TestGovcReplay")
	case fn == "(*tlog.Writer).Write":
		// a fixed family of entry sequences (encodable and unencodable frames, times before and after 1970, a failing
		// file) written through the real writer; the file must be the concatenation of timestamp+frame of exactly the
		// accepted entries
		test := `package tlog

import ("bytes"; "errors"; "fmt"; "testing"; "time"; "github.com/bluenviron/gomavlib/v3/pkg/frame"; "github.com/bluenviron/gomavlib/v3/pkg/message")

type rpFailing struct { buf bytes.Buffer; failAt, calls int }
func (f *rpFailing) Write(p []byte) (int, error) { f.calls++; if f.calls == f.failAt { return 0, errors.New("disk full") }; return f.buf.Write(p) }

func rpWire(fr frame.Frame) []byte {
	switch f := fr.(type) {
	case *frame.V2Frame:
		m := f.Message.(*message.MessageRaw)
		out := []byte{0xFD, byte(len(m.Payload)), f.IncompatibilityFlag, f.CompatibilityFlag, f.SequenceNumber, f.SystemID, f.ComponentID, byte(m.ID), byte(m.ID >> 8), byte(m.ID >> 16)}
		out = append(out, m.Payload...)
		return append(out, byte(f.Checksum), byte(f.Checksum>>8))
	case *frame.V1Frame:
		m := f.Message.(*message.MessageRaw)
		out := []byte{0xFE, byte(len(m.Payload)), f.SequenceNumber, f.SystemID, f.ComponentID, byte(m.ID)}
		out = append(out, m.Payload...)
		return append(out, byte(f.Checksum), byte(f.Checksum>>8))
	}
	return nil
}

func TestGovcReplay(t *testing.T) {
	good2 := &frame.V2Frame{SequenceNumber: 3, SystemID: 4, ComponentID: 5, Message: &message.MessageRaw{ID: 300, Payload: []byte{1, 2, 3}}, Checksum: 0x1234}
	good1 := &frame.V1Frame{SequenceNumber: 9, SystemID: 8, ComponentID: 7, Message: &message.MessageRaw{ID: 30, Payload: []byte{5, 0, 6}}, Checksum: 0x4321}
	bad1 := &frame.V1Frame{Message: &message.MessageRaw{ID: 300, Payload: []byte{1}}}
	badNil := &frame.V2Frame{}
	times := []time.Time{time.Unix(1700000000, 123456789), time.Unix(-5, 999), time.Unix(0, 0)}
	seqs := [][]frame.Frame{{good2}, {good1, good2}, {bad1, good2}, {good1, badNil, good2}, {badNil}, {bad1, bad1, good1}}
	confirmed := false
	for si, seq := range seqs {
		for failAt := 0; failAt <= 4; failAt++ {
			dst := &rpFailing{failAt: failAt}
			w := &Writer{ByteWriter: dst}
			if err := w.Initialize(); err != nil { continue }
			var want []byte
			stop := false
			for k, fr := range seq {
				ts := times[k%len(times)]
				encodable := fr != badNil && fr != bad1
				before := dst.buf.Len()
				callsBefore := dst.calls
				err := w.Write(&Entry{Time: ts, Frame: fr})
				if !encodable {
					if err == nil || dst.buf.Len() != before || dst.calls != callsBefore {
						confirmed = true
						fmt.Printf("REPLAY-CONFIRMED tlog.Writer.Write sequence %d entry %d (unencodable frame): err=%v, file grew by %d bytes, %d writes to the file\n", si, k, err, dst.buf.Len()-before, dst.calls-callsBefore)
					}
					continue
				}
				us := ts.UnixMicro()
				e := []byte{byte(us >> 56), byte(us >> 48), byte(us >> 40), byte(us >> 32), byte(us >> 24), byte(us >> 16), byte(us >> 8), byte(us)}
				e = append(e, rpWire(fr)...)
				if dst.calls >= failAt && failAt != 0 && dst.calls-callsBefore > 0 && err != nil { stop = true; break }
				if err != nil { stop = true; break }
				want = append(want, e...)
			}
			if !stop && !bytes.Equal(dst.buf.Bytes(), want) {
				confirmed = true
				fmt.Printf("REPLAY-CONFIRMED tlog.Writer.Write sequence %d (failing write #%d): file is %x, the accepted entries are %x\n", si, failAt, dst.buf.Bytes(), want)
			}
		}
	}
	if !confirmed { fmt.Println("REPLAY-NOT-REPRODUCED") }
}
`
		return c.runReplayTest("pkg/tlog", map[string]string{"test.go": test}, "TestGovcReplay")
	case fn == "(*streamwriter.Writer).Initialize":
		// configuration from the model; the expected outcome is the property's sentence, not the contract
		get := func(suffix string) uint64 { _, x, _ := findKey(m, suffix); return x }
		keyNil := true
		if _, isnil, ok := findKey(m, ".Key.isnil!1"); ok {
			keyNil = isnil != 0
		}
		key := "nil"
		if !keyNil {
			key = "frame.NewV2Key(make([]byte, 32))"
		}
		test := fmt.Sprintf(`package streamwriter

import ("fmt"; "testing"; "github.com/bluenviron/gomavlib/v3/pkg/frame")

func TestGovcReplay(t *testing.T) {
	confirmed := false
	try := func(ver Version, sys, comp byte, key *frame.V2Key) {
		w := &Writer{Version: ver, SystemID: sys, ComponentID: comp, Key: key}
		err := w.Initialize()
		refuse := ver == 0 || sys < 1 || (key != nil && ver != V2)
		if (err != nil) != refuse {
			confirmed = true
			fmt.Printf("REPLAY-CONFIRMED streamwriter.Initialize(Version=%%d SystemID=%%d ComponentID=%%d Key set=%%v): err=%%v, must be refused=%%v\n", ver, sys, comp, key != nil, err, refuse)
		} else if err == nil && ((comp < 1 && w.ComponentID != 1) || (comp >= 1 && w.ComponentID != comp)) {
			confirmed = true
			fmt.Printf("REPLAY-CONFIRMED streamwriter.Initialize(ComponentID=%%d) leaves component id %%d\n", comp, w.ComponentID)
		}
	}
	try(Version(%d), %d, %d, %s)
	// neighbours of the model (the solver's model is one point of the failing region)
	for _, ver := range []Version{0, V1, V2} { for _, sys := range []byte{0, 1, 255} { for _, comp := range []byte{0, 1, 7} {
		try(ver, sys, comp, nil); try(ver, sys, comp, frame.NewV2Key(make([]byte, 32)))
	} } }
	if !confirmed { fmt.Println("REPLAY-NOT-REPRODUCED") }
}
`, int64(get(".Version!1")), get(".SystemID!1")&0xFF, get(".ComponentID!1")&0xFF, key)
		return c.runReplayTest("pkg/streamwriter", map[string]string{"test.go": test}, "TestGovcReplay")
	case strings.HasPrefix(fn, "(*message.ReadWriter).Initialize"):
		// the counterexample is a struct TYPE (reflect model), which cannot be built from a solver model at run time:
		// search the bounded corpus instead (408 shipped structs + malformed / boundary structs against the
		// independent oracle) with the real code
		return c.replayByStandin("pkg/dialects", "codec_test.go.txt", "TestGovcStandinCodec", map[string]string{"VERIF_N": "2"},
			[]string{"size-limit", "crc-extra", "crc-extra-published", "malformed-accepted", "malformed-panics", "wellformed-refused", "initialize", "encode", "decode", "size", "panic", "v1-length"})
	case fn == "(*frame.Writer).Initialize" || fn == "(*frame.Writer).writeFrameInner":
		// the contract is about the marshal buffer: write the largest frames of each kind through the real writer
		test := `package frame

import ("bytes"; "fmt"; "testing"; "github.com/bluenviron/gomavlib/v3/pkg/message")

func TestGovcReplay(t *testing.T) {
	payload := make([]byte, 255)
	for i := range payload { payload[i] = byte(i + 1) }
	confirmed := false
	for _, id := range []uint32{0, 255, 0xABCDEF} {
		for kind := 0; kind < 3; kind++ {
			var buf bytes.Buffer
			w := &Writer{ByteWriter: &buf, OutVersion: V2, OutSystemID: 1}
			if err := w.Initialize(); err != nil { continue }
			var fr Frame
			var want []byte
			sig := V2Signature{9, 8, 7, 6, 5, 4}
			switch kind {
			case 0:
				if id > 255 { continue }
				fr = &V1Frame{SequenceNumber: 3, SystemID: 4, ComponentID: 5, Message: &message.MessageRaw{ID: id, Payload: payload}, Checksum: 0x1234}
				want = rpV1Wire(3, 4, 5, id, payload, 0x1234)
			case 1:
				fr = &V2Frame{SequenceNumber: 3, SystemID: 4, ComponentID: 5, Message: &message.MessageRaw{ID: id, Payload: payload}, Checksum: 0x1234}
				want = rpV2Wire(0, 0, 3, 4, 5, id, payload, 0x1234, 0, 0, sig)
			case 2:
				fr = &V2Frame{IncompatibilityFlag: 1, SequenceNumber: 3, SystemID: 4, ComponentID: 5, Message: &message.MessageRaw{ID: id, Payload: payload}, Checksum: 0x1234, SignatureLinkID: 7, SignatureTimestamp: 0x010203040506, Signature: &sig}
				want = rpV2Wire(1, 0, 3, 4, 5, id, payload, 0x1234, 7, 0x010203040506, sig)
			}
			err := func() (err error) {
				defer func() { if e := recover(); e != nil { err = fmt.Errorf("panic: %v", e) } }()
				return w.Write(fr)
			}()
			if err != nil || !bytes.Equal(buf.Bytes(), want) {
				confirmed = true
				fmt.Printf("REPLAY-CONFIRMED Writer.Initialize+Write of a full-size frame (kind %d, id %#x): emitted %d bytes (err %v), the frame has %d bytes; emitted tail %x, expected tail %x\n", kind, id, buf.Len(), err, len(want), tailOf(buf.Bytes()), tailOf(want))
			}
		}
	}
	if !confirmed { fmt.Println("REPLAY-NOT-REPRODUCED") }
}

func tailOf(b []byte) []byte { if len(b) > 16 { return b[len(b)-16:] }; return b }
`
		return c.runReplayTest("pkg/frame", map[string]string{"oracle.go": string(oracle), "test.go": test}, "TestGovcReplay")
	case fn == "(*frame.V1Frame).unmarshal" || fn == "(*frame.V2Frame).unmarshal" || fn == "(*frame.Reader).Read" || fn == "frame.lemmaForwardRaw":
		return c.replayStream(ns, v, m, string(oracle))
	}
	return ""
}

// replayByStandin runs a bounded stand-in against the real code as a SEARCH for a concrete failing input.
func (c *checkCtx) replayByStandin(pkg, file, run string, env map[string]string, kinds []string) string {
	src := filepath.Join(verifDir, "standins", file)
	dst := filepath.Join(repoDir, pkg, "zz_govc_standin_test.go")
	data, _ := json.Marshal(map[string]map[string]string{"Replace": {dst: src}})
	ovFile := filepath.Join(scratch(), "replay-standin-overlay.json")
	os.WriteFile(ovFile, data, 0o644)
	cmd := exec.Command("go", "test", "-overlay", ovFile, "-vet=off", "-count=1", "-timeout", "300s", "-run", run, "-v", "./"+pkg)
	cmd.Dir = repoDir
	cmd.Env = goEnv()
	for k, v := range env {
		cmd.Env = append(cmd.Env, k+"="+v)
	}
	var out bytes.Buffer
	cmd.Stdout = &out
	cmd.Stderr = &out
	cmd.Run()
	want := map[string]bool{}
	for _, k := range kinds {
		want[k] = true
	}
	var keep []string
	for _, l := range strings.Split(out.String(), "\n") {
		if m := standinFail.FindStringSubmatch(strings.TrimSpace(l)); m != nil && (len(kinds) == 0 || want[m[1]]) {
			if len(keep) < 5 {
				keep = append(keep, fmt.Sprintf("REPLAY-CONFIRMED (bounded search over the stand-in corpus, real code) kind=%s item=%s %s", m[1], m[2], m[3]))
			}
		}
	}
	if len(keep) == 0 {
		return "REPLAY-NOT-REPRODUCED by the bounded corpus search (" + run + "); the counterexample of the proof is a struct type outside the corpus"
	}
	return strings.Join(keep, "\n")
}

func (c *checkCtx) replayEnum(ns *NameSummary, m map[string]uint64) string {
	// name: <pkgbase>.dialects/<pkg>.govcEnumRT_<T>#...
	nm := ns.Name
	i := strings.Index(nm, "govcEnumRT_")
	if i < 0 {
		return ""
	}
	typ := nm[i+len("govcEnumRT_"):]
	if j := strings.Index(typ, "#"); j >= 0 {
		typ = typ[:j]
	}
	pkg := strings.SplitN(nm, ".", 2)[0]
	_, e, ok := findKey(m, "e!1")
	if !ok {
		return ""
	}
	test := fmt.Sprintf(`package %s

import ("fmt"; "testing")

func TestGovcReplay(t *testing.T) {
	e := %s(0x%x)
	b, _ := e.MarshalText()
	var e2 %s
	err := (&e2).UnmarshalText(b)
	if err != nil || e2 != e { fmt.Printf("REPLAY-CONFIRMED %s(%%#x) -> %%q -> %%#x, err=%%v\\n", uint64(e), b, uint64(e2), err) } else { fmt.Println("REPLAY-NOT-REPRODUCED") }
}
`, pkg, typ, e, typ, typ)
	return c.runReplayTest("pkg/dialects/"+pkg, map[string]string{"test.go": test}, "TestGovcReplay")
}

// replayFrameFields: frame header fields and payload from the model; compare marshalTo / GenerateChecksum with the mirror.
func (c *checkCtx) replayFrameFields(ns *NameSummary, v *Verdict, m map[string]uint64, oracle string) string {
	get := func(suffix string) uint64 { _, x, _ := findKey(m, suffix); return x }
	isV2 := strings.Contains(ns.Func, "V2Frame")
	raw := strings.Contains(ns.Func, "GenerateChecksum")
	var payload []byte
	var id uint64
	if raw {
		k, n, _ := findKey(m, "Payload.len!1")
		arr := strings.Replace(strings.Replace(k, ".len!1", ".arr!1", 1), "_f.Message", "__f.Message", 1)
		payload = modelBytes(v, arr, 0, int(n))
		if payload == nil {
			payload = make([]byte, n)
		}
		id = get(".ID!1")
	} else {
		n := get("msgEncoded.len!1")
		payload = modelBytes(v, "msgEncoded.arr!1", 0, int(n))
		if payload == nil {
			payload = make([]byte, n)
		}
		id = get(".ID!1")
	}
	if len(payload) > 255 {
		return "replay skipped: model payload longer than 255 bytes"
	}
	frameLit := ""
	if isV2 {
		frameLit = fmt.Sprintf("V2Frame{IncompatibilityFlag: 0x%x, CompatibilityFlag: 0x%x, SequenceNumber: 0x%x, SystemID: 0x%x, ComponentID: 0x%x, Message: &message.MessageRaw{ID: 0x%x, Payload: payload}, Checksum: 0x%x, SignatureLinkID: 0x%x, SignatureTimestamp: 0x%x, Signature: &V2Signature{1,2,3,4,5,6}}",
			get("f.IncompatibilityFlag!1"), get("f.CompatibilityFlag!1"), get("f.SequenceNumber!1"), get("f.SystemID!1"), get("f.ComponentID!1"), id, get("f.Checksum!1"), get("f.SignatureLinkID!1"), get("f.SignatureTimestamp!1")&0xFFFFFFFFFFFF)
	} else {
		frameLit = fmt.Sprintf("V1Frame{SequenceNumber: 0x%x, SystemID: 0x%x, ComponentID: 0x%x, Message: &message.MessageRaw{ID: 0x%x, Payload: payload}, Checksum: 0x%x}",
			get("f.SequenceNumber!1"), get("f.SystemID!1"), get("f.ComponentID!1"), id, get("f.Checksum!1"))
	}
	body := ""
	if raw {
		extra := get("crcExtra!1")
		if isV2 {
			body = fmt.Sprintf(`	got := f.GenerateChecksum(0x%x)
	id := uint32(0x%x)
	hdr := []byte{byte(len(payload)), f.IncompatibilityFlag, f.CompatibilityFlag, f.SequenceNumber, f.SystemID, f.ComponentID, byte(id), byte(id >> 8), byte(id >> 16)}
	want := rpCRCStep(rpCRC(rpCRC(0xFFFF, hdr), payload), 0x%x)`, extra, id, extra)
		} else {
			body = fmt.Sprintf(`	got := f.GenerateChecksum(0x%x)
	id := uint32(0x%x)
	hdr := []byte{byte(len(payload)), f.SequenceNumber, f.SystemID, f.ComponentID, byte(id)}
	want := rpCRCStep(rpCRC(rpCRC(0xFFFF, hdr), payload), 0x%x)`, extra, id, extra)
		}
		body += `
	if got != want { fmt.Printf("REPLAY-CONFIRMED GenerateChecksum on %+v payload=%x: got %#x, spec checksum %#x\n", f, payload, got, want) } else { fmt.Println("REPLAY-NOT-REPRODUCED") }`
	} else {
		if isV2 {
			body = `	buf := make([]byte, 512)
	n, err := f.marshalTo(buf, payload)
	want := rpV2Wire(f.IncompatibilityFlag, f.CompatibilityFlag, f.SequenceNumber, f.SystemID, f.ComponentID, f.Message.GetID(), payload, f.Checksum, f.SignatureLinkID, f.SignatureTimestamp, *f.Signature)`
		} else {
			body = `	buf := make([]byte, 512)
	n, err := f.marshalTo(buf, payload)
	want := rpV1Wire(f.SequenceNumber, f.SystemID, f.ComponentID, f.Message.GetID(), payload, f.Checksum)
	if f.Message.GetID() > 255 { if err == nil { fmt.Println("REPLAY-CONFIRMED v1 id > 255 not refused") } else { fmt.Println("REPLAY-NOT-REPRODUCED") }; return }`
		}
		body += `
	if err != nil || string(buf[:n]) != string(want) { fmt.Printf("REPLAY-CONFIRMED marshalTo on %+v payload=%x: emitted %x (err %v), spec layout %x\n", f, payload, buf[:n], err, want) } else { fmt.Println("REPLAY-NOT-REPRODUCED") }`
	}
	test := fmt.Sprintf(`package frame

import ("fmt"; "testing"; "github.com/bluenviron/gomavlib/v3/pkg/message")

func TestGovcReplay(t *testing.T) {
	payload := %s
	f := %s
%s
}
`, goBytes(payload), frameLit, body)
	return c.runReplayTest("pkg/frame", map[string]string{"oracle.go": oracle, "test.go": test}, "TestGovcReplay")
}

// replayStream: the bytes of the ghost stream from the model position on, fed to the real reader without key and dialect.
func (c *checkCtx) replayStream(ns *NameSummary, v *Verdict, m map[string]uint64, oracle string) string {
	if _, isnil, ok := findKey(m, "InKey.isnil!1"); ok && isnil == 0 && strings.Contains(ns.Func, "Read") {
		return "replay skipped: the model uses a signing key (SHA-256 is uninterpreted in the proof, the model's digest bytes are not real)"
	}
	if _, isnil, ok := findKey(m, "DialectRW.isnil!1"); ok && isnil == 0 && strings.Contains(ns.Func, "Read") {
		return "replay skipped: the model uses a dialect (the dialect table is uninterpreted in the proof)"
	}
	k, pos, ok := findKey(m, ".pos!1")
	if !ok {
		return ""
	}
	base := strings.TrimSuffix(k, ".pos!1")
	_, avail, _ := findKey(m, ".avail!1")
	arr := base + ".stream!1"
	n := int(avail - pos)
	if n < 0 {
		return ""
	}
	if n > 400 {
		n = 400
	}
	stream := modelBytes(v, arr, pos, n)
	if stream == nil && n > 0 {
		return "replay skipped: could not read the stream bytes from the model"
	}
	mode := "read"
	if strings.Contains(ns.Func, "unmarshal") {
		mode = "unmarshal-v1"
		if strings.Contains(ns.Func, "V2") {
			mode = "unmarshal-v2"
		}
	}
	test := fmt.Sprintf(`package frame

import ("bufio"; "fmt"; "io"; "testing"; "errors"; "github.com/bluenviron/gomavlib/v3/pkg/message")

// rpChunked delivers the stream in the given chunk sizes (the last size repeats)
type rpChunked struct { data []byte; sizes []int; i int }
func (c *rpChunked) Read(p []byte) (int, error) {
	if len(c.data) == 0 { return 0, io.EOF }
	n := c.sizes[len(c.sizes)-1]
	if c.i < len(c.sizes) { n = c.sizes[c.i] }
	c.i++
	if n > len(c.data) { n = len(c.data) }
	if n > len(p) { n = len(p) }
	copy(p, c.data[:n])
	c.data = c.data[n:]
	return n, nil
}

func TestGovcReplay(t *testing.T) {
	stream := %s
	mode := %q
	// the proof abstracts from how the transport chunks the bytes: try the whole stream, one byte at a time, and every single split point
	chunkings := [][]int{{1 << 20}, {1}}
	for k := 1; k < len(stream) && k < 320; k++ { chunkings = append(chunkings, []int{k, 1 << 20}) }
	for _, ch := range chunkings {
		if rpOnce(stream, mode, ch) { return }
	}
	fmt.Println("REPLAY-NOT-REPRODUCED")
}

func rpOnce(stream []byte, mode string, chunks []int) (confirmed bool) {
	defer func() { if e := recover(); e != nil { fmt.Printf("REPLAY-CONFIRMED panic on stream %%x (chunks %%v): %%v\n", stream, chunks, e); confirmed = true } }()
	src := &rpChunked{data: append([]byte{}, stream...), sizes: chunks}
	if mode != "read" {
		// unmarshal is entered after the magic byte: prepend it for the mirror
		magic := byte(0xFE); if mode == "unmarshal-v2" { magic = 0xFD }
		full := append([]byte{magic}, stream...)
		br := bufio.NewReaderSize(src, 512)
		var err error
		var fv Frame
		if mode == "unmarshal-v2" { f := &V2Frame{}; err = f.unmarshal(br); fv = f } else { f := &V1Frame{}; err = f.unmarshal(br); fv = f }
		size := rpFrameSize(full)
		switch {
		case (err == nil) != (size >= 0):
			fmt.Printf("REPLAY-CONFIRMED unmarshal on %%x (chunks %%v): err=%%v but the spec says complete=%%v\n", stream, chunks, err, size >= 0)
			return true
		case err == nil && !rpSameFrame(fv, full[:size]):
			fmt.Printf("REPLAY-CONFIRMED unmarshal on %%x (chunks %%v): parsed frame %%+v re-encodes differently from the bytes consumed\n", stream, chunks, fv)
			return true
		}
		return false
	}
	r := &Reader{ByteReader: src}
	r.Initialize()
	fr, err := r.Read()
	var re ReadError
	isParse := errors.As(err, &re)
	size := rpFrameSize(stream)
	switch {
	case len(stream) == 0:
		if fr != nil || err == nil || isParse { fmt.Printf("REPLAY-CONFIRMED empty stream: fr=%%v err=%%v\n", fr, err); return true }
	case size >= 0:
		if fr == nil || err != nil || !rpSameFrame(fr, stream[:size]) { fmt.Printf("REPLAY-CONFIRMED complete frame %%x (chunks %%v) not returned as parsed: fr=%%+v err=%%v\n", stream[:size], chunks, fr, err); return true }
	default:
		if fr != nil || !isParse { fmt.Printf("REPLAY-CONFIRMED no complete frame at the start of %%x (chunks %%v) but fr=%%v err=%%v\n", stream, chunks, fr, err); return true }
	}
	return false
}

// rpSameFrame: the frame re-encoded by the mirror equals the wire bytes
func rpSameFrame(fr Frame, wire []byte) bool {
	raw, ok := fr.GetMessage().(*message.MessageRaw)
	if !ok { return false }
	var enc []byte
	switch f := fr.(type) {
	case *V1Frame:
		enc = rpV1Wire(f.SequenceNumber, f.SystemID, f.ComponentID, raw.ID, raw.Payload, f.Checksum)
	case *V2Frame:
		var sig [6]byte
		if f.Signature != nil { sig = *f.Signature }
		enc = rpV2Wire(f.IncompatibilityFlag, f.CompatibilityFlag, f.SequenceNumber, f.SystemID, f.ComponentID, raw.ID, raw.Payload, f.Checksum, f.SignatureLinkID, f.SignatureTimestamp, sig)
	}
	return string(enc) == string(wire)
}
`, goBytes(stream), mode)
	return c.runReplayTest("pkg/frame", map[string]string{"oracle.go": oracle, "test.go": test}, "TestGovcReplay")
}

type StandinConf struct {
	Name    string            `json:"name"`
	Pkg     string            `json:"pkg"`  // directory relative to the repo where the test is injected
	File    string            `json:"file"` // file under /verif/standins
	Run     string            `json:"run"`  // -run regexp
	With    []string          `json:"with,omitempty"` // further files of /verif/standins injected alongside (shared helpers)
	Kinds   []string          `json:"kinds,omitempty"` // failure kinds that belong to this property (empty = all)
	Quick   map[string]string `json:"quick,omitempty"`
	Thorough map[string]string `json:"thorough,omitempty"`
	Bound   string            `json:"bound"`
}

var standinLine = regexp.MustCompile(`^STANDIN (\S+) (.*)$`)
var standinFail = regexp.MustCompile(`^STANDIN-FAIL kind=(\S+) item=(\S+) (.*)$`)

// runStandin executes one bounded stand-in against the real code through `go test -overlay`.
func (c *checkCtx) runStandin(sc StandinConf) map[string]interface{} {
	res := map[string]interface{}{"name": sc.Name, "bound": sc.Bound, "level": "bounded (never counted as proved)"}
	src := filepath.Join(verifDir, "standins", sc.File)
	dst := filepath.Join(repoDir, sc.Pkg, "zz_govc_standin_test.go")
	ov := map[string]map[string]string{"Replace": {dst: src}}
	for i, w := range sc.With {
		ov["Replace"][filepath.Join(repoDir, sc.Pkg, fmt.Sprintf("zz_govc_standin_with%d_test.go", i))] = filepath.Join(verifDir, "standins", w)
	}
	data, _ := json.Marshal(ov)
	ovFile := filepath.Join(scratch(), "overlay-"+sc.Name+".json")
	os.WriteFile(ovFile, data, 0o644)
	env := goEnv()
	env = append(env, fmt.Sprintf("VERIF_SEED=%d", c.seed))
	extra := sc.Quick
	if c.tier == "thorough" {
		extra = sc.Thorough
	}
	for k, v := range extra {
		env = append(env, k+"="+v)
	}
	pkg := "./" + sc.Pkg
	if sc.Pkg == "." || sc.Pkg == "" {
		pkg = "."
	}
	t0 := time.Now()
	cmd := exec.Command("go", "test", "-overlay", ovFile, "-vet=off", "-count=1", "-timeout", "900s", "-run", sc.Run, "-v", pkg)
	cmd.Dir = repoDir
	cmd.Env = env
	var out bytes.Buffer
	cmd.Stdout = &out
	cmd.Stderr = &out
	err := cmd.Run()
	res["wall_s"] = time.Since(t0).Seconds()
	res["cmd"] = strings.Join(cmd.Args, " ")
	var fails []map[string]string
	summary := ""
	for _, l := range strings.Split(out.String(), "\n") {
		l = strings.TrimSpace(l)
		if m := standinLine.FindStringSubmatch(l); m != nil {
			summary = m[2]
			for _, kv := range strings.Fields(m[2]) {
				if i := strings.Index(kv, "="); i > 0 {
					res[kv[:i]] = kv[i+1:]
				}
			}
		}
		if m := standinFail.FindStringSubmatch(l); m != nil {
			fails = append(fails, map[string]string{"kind": m[1], "item": m[2], "detail": m[3]})
		}
	}
	res["summary"] = summary
	if summary == "" {
		// the stand-in itself did not run to completion: build failure or crash
		tail := out.String()
		if len(tail) > 3000 {
			tail = tail[len(tail)-3000:]
		}
		res["error"] = fmt.Sprintf("stand-in did not complete (%v)", err)
		p := filepath.Join(c.outDir, "standin-"+sc.Name+"-error.txt")
		os.WriteFile(p, []byte("obligation: standin:"+sc.Name+":did-not-run\n\n"+tail), 0o644)
		c.violation("standin:"+sc.Name+":did-not-run", p, false)
		return res
	}
	// failures: group by (kind,item); known findings are matched by item
	kindOK := func(k string) bool {
		if len(sc.Kinds) == 0 {
			return true
		}
		for _, x := range sc.Kinds {
			if x == k {
				return true
			}
		}
		return false
	}
	reported := map[string]bool{}
	nf := 0
	var knownItems []string
	for _, f := range fails {
		if !kindOK(f["kind"]) {
			continue
		}
		key := f["kind"] + ":" + f["item"]
		if reported[key] {
			continue
		}
		reported[key] = true
		ob := "standin:" + sc.Name + ":" + f["kind"]
		if k := matchKnown(c.known, c.id, ob, f["item"]); k != nil {
			fmt.Printf("KNOWN-FINDING: property=%s %s [%s]\n", c.id, k.What, f["item"])
			knownItems = append(knownItems, key)
			continue
		}
		nf++
		if nf > 12 {
			continue
		}
		p := filepath.Join(c.outDir, "standin-"+sc.Name+"-"+strings.NewReplacer("/", "_", "*", "P", ".", "_").Replace(key)+".txt")
		os.WriteFile(p, []byte(fmt.Sprintf("obligation: %s\nitem: %s\nfailing input (found by the bounded stand-in running the real code):\n%s\n\nre-run: %s (VERIF_SEED=%d)\n", ob, f["item"], f["detail"], res["cmd"], c.seed)), 0o644)
		c.violation(ob+"["+f["item"]+"]", p, true)
	}
	res["failures"] = nf
	res["known_findings_matched"] = knownItems
	return res
}

func runExtras(c *checkCtx, cov map[string]interface{}) int {
	var bounded []interface{}
	rc := 0
	for _, sc := range c.conf.StandinConfs {
		r := c.runStandin(sc)
		bounded = append(bounded, r)
		if n, ok := r["failures"].(int); ok && n > 0 {
			rc = 1
		}
	}
	if len(bounded) > 0 {
		cov["bounded"] = bounded
	}
	g := runGround(c, cov)
	if g > rc {
		rc = g
	}
	return rc
}
