package main

import (
	"bytes"
	"encoding/json"
	"fmt"
	"os"
	"os/exec"
	"path/filepath"
	"regexp"
	"strings"
	"time"
)

// tryReplay: rebuild the solver's counterexample as inputs of the real function and run it (go test -overlay).
func (c *checkCtx) tryReplay(ns *NameSummary, v *Verdict, model, dir, safe string) string {
	return ""
}

type StandinConf struct {
	Name    string            `json:"name"`
	Pkg     string            `json:"pkg"`  // directory relative to the repo where the test is injected
	File    string            `json:"file"` // file under /verif/standins
	Run     string            `json:"run"`  // -run regexp
	With    []string          `json:"with,omitempty"` // further files of /verif/standins injected alongside (shared helpers)
	Kinds   []string          `json:"kinds,omitempty"` // failure kinds that belong to this property (empty = all)
	Quick   map[string]string `json:"quick,omitempty"`
	Thorough map[string]string `json:"thorough,omitempty"`
	Bound   string            `json:"bound"`
}

var standinLine = regexp.MustCompile(`^STANDIN (\S+) (.*)$`)
var standinFail = regexp.MustCompile(`^STANDIN-FAIL kind=(\S+) item=(\S+) (.*)$`)

// runStandin executes one bounded stand-in against the real code through `go test -overlay`.
func (c *checkCtx) runStandin(sc StandinConf) map[string]interface{} {
	res := map[string]interface{}{"name": sc.Name, "bound": sc.Bound, "level": "bounded (never counted as proved)"}
	src := filepath.Join(verifDir, "standins", sc.File)
	dst := filepath.Join(repoDir, sc.Pkg, "zz_govc_standin_test.go")
	ov := map[string]map[string]string{"Replace": {dst: src}}
	for i, w := range sc.With {
		ov["Replace"][filepath.Join(repoDir, sc.Pkg, fmt.Sprintf("zz_govc_standin_with%d_test.go", i))] = filepath.Join(verifDir, "standins", w)
	}
	data, _ := json.Marshal(ov)
	ovFile := filepath.Join(scratch(), "overlay-"+sc.Name+".json")
	os.WriteFile(ovFile, data, 0o644)
	env := goEnv()
	env = append(env, fmt.Sprintf("VERIF_SEED=%d", c.seed))
	extra := sc.Quick
	if c.tier == "thorough" {
		extra = sc.Thorough
	}
	for k, v := range extra {
		env = append(env, k+"="+v)
	}
	pkg := "./" + sc.Pkg
	if sc.Pkg == "." || sc.Pkg == "" {
		pkg = "."
	}
	t0 := time.Now()
	cmd := exec.Command("go", "test", "-overlay", ovFile, "-vet=off", "-count=1", "-timeout", "900s", "-run", sc.Run, "-v", pkg)
	cmd.Dir = repoDir
	cmd.Env = env
	var out bytes.Buffer
	cmd.Stdout = &out
	cmd.Stderr = &out
	err := cmd.Run()
	res["wall_s"] = time.Since(t0).Seconds()
	res["cmd"] = strings.Join(cmd.Args, " ")
	var fails []map[string]string
	summary := ""
	for _, l := range strings.Split(out.String(), "\n") {
		l = strings.TrimSpace(l)
		if m := standinLine.FindStringSubmatch(l); m != nil {
			summary = m[2]
			for _, kv := range strings.Fields(m[2]) {
				if i := strings.Index(kv, "="); i > 0 {
					res[kv[:i]] = kv[i+1:]
				}
			}
		}
		if m := standinFail.FindStringSubmatch(l); m != nil {
			fails = append(fails, map[string]string{"kind": m[1], "item": m[2], "detail": m[3]})
		}
	}
	res["summary"] = summary
	if summary == "" {
		// the stand-in itself did not run to completion: build failure or crash
		tail := out.String()
		if len(tail) > 3000 {
			tail = tail[len(tail)-3000:]
		}
		res["error"] = fmt.Sprintf("stand-in did not complete (%v)", err)
		p := filepath.Join(c.outDir, "standin-"+sc.Name+"-error.txt")
		os.WriteFile(p, []byte("obligation: standin:"+sc.Name+":did-not-run\n\n"+tail), 0o644)
		c.violation("standin:"+sc.Name+":did-not-run", p, false)
		return res
	}
	// failures: group by (kind,item); known findings are matched by item
	kindOK := func(k string) bool {
		if len(sc.Kinds) == 0 {
			return true
		}
		for _, x := range sc.Kinds {
			if x == k {
				return true
			}
		}
		return false
	}
	reported := map[string]bool{}
	nf := 0
	var knownItems []string
	for _, f := range fails {
		if !kindOK(f["kind"]) {
			continue
		}
		key := f["kind"] + ":" + f["item"]
		if reported[key] {
			continue
		}
		reported[key] = true
		ob := "standin:" + sc.Name + ":" + f["kind"]
		if k := matchKnown(c.known, c.id, ob, f["item"]); k != nil {
			fmt.Printf("KNOWN-FINDING: property=%s %s [%s]\n", c.id, k.What, f["item"])
			knownItems = append(knownItems, key)
			continue
		}
		nf++
		if nf > 12 {
			continue
		}
		p := filepath.Join(c.outDir, "standin-"+sc.Name+"-"+strings.NewReplacer("/", "_", "*", "P", ".", "_").Replace(key)+".txt")
		os.WriteFile(p, []byte(fmt.Sprintf("obligation: %s\nitem: %s\nfailing input (found by the bounded stand-in running the real code):\n%s\n\nre-run: %s (VERIF_SEED=%d)\n", ob, f["item"], f["detail"], res["cmd"], c.seed)), 0o644)
		c.violation(ob+"["+f["item"]+"]", p, true)
	}
	res["failures"] = nf
	res["known_findings_matched"] = knownItems
	return res
}

func runExtras(c *checkCtx, cov map[string]interface{}) int {
	var bounded []interface{}
	rc := 0
	for _, sc := range c.conf.StandinConfs {
		r := c.runStandin(sc)
		bounded = append(bounded, r)
		if n, ok := r["failures"].(int); ok && n > 0 {
			rc = 1
		}
	}
	if len(bounded) > 0 {
		cov["bounded"] = bounded
	}
	g := runGround(c, cov)
	if g > rc {
		rc = g
	}
	return rc
}
