package main

import (
	"fmt"
	"go/types"
	"strings"

	"golang.org/x/tools/go/ssa"
)

func (fr *Frame) call(in ssa.Instruction, c *ssa.CallCommon) []Value {
	if f, ok := c.Value.(*ssa.Function); ok && !c.IsInvoke() {
		g := f
		if f.Origin() != nil {
			g = f.Origin()
		}
		if g.Name() == "old" && fr.st.eng.specPure[g] {
			return []Value{fr.evalOld(c.Args[0])}
		}
	}
	var args []Value
	for _, a := range c.Args {
		args = append(args, fr.get(a))
	}
	var recv Value
	if c.IsInvoke() {
		recv = fr.get(c.Value)
	} else {
		switch c.Value.(type) {
		case *ssa.Function, *ssa.Builtin:
		default:
			recv = fr.get(c.Value)
		}
	}
	return fr.callWith(in, c, recv, args)
}

func (fr *Frame) callWith(in ssa.Instruction, c *ssa.CallCommon, recv Value, args []Value) []Value {
	s := fr.st
	where := fr.loc(in)
	if c.IsInvoke() {
		iv, ok := recv.(*IfaceV)
		if !ok {
			unsup("invoke on %T", recv)
		}
		return s.invoke(iv, c.Value.Type(), c.Method, args, where, resultTypes(c.Signature()))
	}
	switch f := c.Value.(type) {
	case *ssa.Builtin:
		return fr.builtin(in, f, c, args)
	case *ssa.Function:
		return s.callFunc(f, args, where)
	}
	switch f := recv.(type) {
	case *ClosureV:
		return s.callFunc(f.Fn, append(append([]Value{}, args...), f.Bindings...), where, true)
	case *FuncV:
		if f.Fn == nil {
			s.check("safety:nilfunc@"+where, False)
			panic(pathEnd{"nil func"})
		}
		return s.callFunc(f.Fn, args, where)
	case *OpaqueV:
		s.logEvent("call:func-value", f, args...)
		var out []Value
		for i, t := range resultTypes(c.Signature()) {
			out = append(out, s.symValue(t, fmt.Sprintf("funcvalue.ret%d", i)))
		}
		s.assumeResultConvention(c.Signature(), out)
		return out
	}
	unsup("call of %T", recv)
	return nil
}

func resultTypes(sig *types.Signature) []types.Type {
	var out []types.Type
	for i := 0; i < sig.Results().Len(); i++ {
		out = append(out, sig.Results().At(i).Type())
	}
	return out
}

// callFunc dispatches a static call: intrinsic, contract, or inlined body.
func (s *State) callFunc(fn *ssa.Function, args []Value, where string, closure ...bool) []Value {
	name := fn.String()
	if fn.Origin() != nil {
		name = fn.Origin().String()
	}
	if h := s.eng.intrinsic(fn, name); h != nil {
		return h(s, fn, args, where)
	}
	if s.pure == 0 && s.ghostlog[shortFn(fn)] {
		// designated by the contract (ghostlog): the call is an observable event of this function, not executed
		var res []Value
		if fc := s.eng.contracts[fn]; fc != nil && !fc.Inline && fn != s.eng.root && s.ghostlogContract[shortFn(fn)] {
			// the recorded callee has a contract of its own: the event is recorded AND its contract describes the results
			// (the callee's own ghost-log effects are replaced by the single recorded entry)
			saved := append([]LogEntry{}, s.log...)
			res = s.applyContract(fn, fc, args, where)
			s.log = saved
		} else {
			for i, t := range resultTypes(fn.Signature) {
				res = append(res, s.symValue(t, fmt.Sprintf("%s.ret%d", lastSeg(shortFn(fn)), i)))
			}
		}
		e := LogEntry{Callee: shortFn(fn), Args: args, Arr: &ArrZero{W: 8}, Off: Const(64, 0), N: Const(64, 0), RetN: Const(64, 0), Err: s.zeroValue(errorType())}
		// the bytes of the first []byte argument at the time of the call (logByte / logN / logBytesAre)
		for _, a := range args {
			if p, ok := a.(*SliceV); ok && p.object() != nil {
				if so, isS := sortOf(p.Elem); isS && so.Kind == KBV && so.W == 8 {
					e.Arr, e.Off, e.N = s.sliceArr(p), p.Off, p.Len
					e.BufObj = p.object()
					break
				}
			}
		}
		if len(res) > 0 {
			if iv, ok := res[len(res)-1].(*IfaceV); ok {
				e.Err = iv
			}
			e.Rets = res
		}
		s.assumeResultConvention(fn.Signature, res)
		s.log = append(s.log, e)
		return res
	}
	isClosure := len(closure) > 0 && closure[0]
	if isClosure {
		// bindings were appended after args: split
		np := len(fn.Params)
		if fc := s.eng.contracts[fn]; fc != nil && !fc.Inline && fn != s.eng.root && s.pure == 0 {
			// a function literal under contract: the contract speaks about the captured VALUES, then the parameters
			var cargs []Value
			for _, b := range args[np:] {
				if p, ok := b.(*PtrV); ok && p.object() != nil {
					cargs = append(cargs, s.load(p, where))
				} else {
					cargs = append(cargs, b)
				}
			}
			cargs = append(cargs, args[:np]...)
			return s.applyContract(fn, fc, cargs, where)
		}
		return s.runClosure(fn, args[:np], args[np:])
	}
	if s.pure > 0 {
		return s.evalPure(fn, args, nil)
	}
	if s.eng.specPure[fn] {
		s.pure++
		defer func() { s.pure-- }()
		return s.evalPure(fn, args, nil)
	}
	if fc := s.eng.contracts[fn]; fc != nil && !fc.Inline && fn != s.eng.root {
		return s.applyContract(fn, fc, args, where)
	}
	if fn.Blocks == nil || !s.eng.inModule(fn) {
		return s.unknownCall(name, args, resultTypes(fn.Signature), where)
	}
	if s.eng.contracts[fn] == nil && !s.eng.inlineOK(fn) {
		return s.unknownCall(name, args, resultTypes(fn.Signature), where)
	}
	return s.run(fn, args, false, s.eng.contracts[fn])
}

func (s *State) runClosure(fn *ssa.Function, args, bindings []Value) []Value {
	if s.pure > 0 {
		return s.evalPure(fn, args, bindings)
	}
	// executable closure: run with free variables bound
	s.depth++
	defer func() { s.depth-- }()
	return s.runWithFree(fn, args, bindings)
}

func (s *State) runWithFree(fn *ssa.Function, args, bindings []Value) []Value {
	return s.run(fn, args, false, nil, bindings...)
}

// unknownCall: code outside the subset.  Results are arbitrary; byte arrays and
// structs reachable from pointer arguments are havocked; the path is marked.
func (s *State) unknownCall(name string, args []Value, rts []types.Type, where string) []Value {
	if s.pure > 0 {
		unsup("call to unmodelled %s inside specification", name)
	}
	s.unmodelled = append(s.unmodelled, name+"@"+where)
	for _, a := range args {
		switch x := a.(type) {
		case *PtrV:
			if o := x.Obj; o != nil {
				s.heap[o.ID] = s.symValue(o.Type, "havoc."+o.Name)
			}
		case *SliceV:
			if o := x.Obj; o != nil {
				av := s.arrayOf(o)
				if av.Arr != nil {
					s.heap[o.ID] = &ArrayV{Arr: &ArrVar{Name: s.freshName("havoc.arr"), W: av.Arr.ElemW()}, N: av.N, Elem: av.Elem}
				}
			}
		}
	}
	var out []Value
	for i, t := range rts {
		out = append(out, s.symValue(t, fmt.Sprintf("unk.%s.%d", lastSeg(name), i)))
	}
	return out
}

func lastSeg(n string) string {
	if i := strings.LastIndexAny(n, "./"); i >= 0 {
		return n[i+1:]
	}
	return n
}

// invoke: interface method call.
func (s *State) invoke(iv *IfaceV, static types.Type, m *types.Func, args []Value, where string, rts []types.Type) []Value {
	s.check("safety:nil@"+where, Ne(iv.Type, Const(32, 0)))
	full := types.TypeString(static, nil) + "." + m.Name()
	if short := shortType(static) + "." + m.Name(); s.pure == 0 && s.ghostlog[short] {
		var res []Value
		for i, t := range rts {
			res = append(res, s.symValue(t, fmt.Sprintf("%s.ret%d", m.Name(), i)))
		}
		e := LogEntry{Callee: short, Target: iv, Args: args, Arr: &ArrZero{W: 8}, Off: Const(64, 0), N: Const(64, 0), RetN: Const(64, 0), Err: s.zeroValue(errorType()), Rets: res}
		for _, a := range args {
			if p, ok := a.(*SliceV); ok && p.object() != nil {
				if so, isS := sortOf(p.Elem); isS && so.Kind == KBV && so.W == 8 {
					e.Arr, e.Off, e.N = s.sliceArr(p), p.Off, p.Len
					e.BufObj = p.object()
					break
				}
			}
		}
		if len(res) > 0 {
			if ev, ok := res[len(res)-1].(*IfaceV); ok {
				e.Err = ev
			}
		}
		if sig, ok := m.Type().(*types.Signature); ok {
			s.assumeResultConvention(sig, res)
		}
		s.log = append(s.log, e)
		return res
	}
	callConcrete := func(tid int) []Value {
		ty := typeByID[tid]
		if ty == nil {
			return nil
		}
		fn := s.eng.prog.LookupMethod(ty, m.Pkg(), m.Name())
		if fn == nil {
			return nil
		}
		recv := iv.alt(tid)
		return s.callFunc(fn, append([]Value{recv}, args...), where)
	}
	if iv.Type.IsConst() {
		if r := callConcrete(int(iv.Type.Val)); r != nil {
			return r
		}
		if h := s.eng.invokeIntrinsic(full); h != nil {
			return h(s, iv, args, where)
		}
		// opaque dynamic type (e.g. error values): method by trusted model
		if h := s.eng.invokeIntrinsic("*." + m.Name()); h != nil {
			return h(s, iv, args, where)
		}
		unsup("invoke %s on dynamic type %s", full, typeNameOfID(int(iv.Type.Val)))
	}
	if cw := s.eng.closedWorld(static); cw != nil {
		if s.pure > 0 {
			// merge scalar results over the closed world
			var res []Value
			for i := len(cw) - 1; i >= 0; i-- {
				tid := typeID(cw[i])
				r := callConcrete(tid)
				if res == nil {
					res = r
					continue
				}
				cond := Eq(iv.Type, Const(32, uint64(tid)))
				for k := range res {
					res[k] = s.iteValue(cond, r[k], res[k])
				}
			}
			return res
		}
		d := s.decide(len(cw), "dispatch:"+full)
		tid := typeID(cw[d])
		s.assume(Eq(iv.Type, Const(32, uint64(tid))))
		return callConcrete(tid)
	}
	if h := s.eng.invokeIntrinsic(full); h != nil {
		return h(s, iv, args, where)
	}
	if h := s.eng.invokeIntrinsic("*." + m.Name()); h != nil {
		return h(s, iv, args, where)
	}
	return s.unknownCall("invoke "+full, args, rts, where)
}

// iteValue merges two values of the same shape.
func (s *State) iteValue(c *Term, a, b Value) Value {
	if a == b {
		return a
	}
	switch x := a.(type) {
	case *Term:
		return Ite(c, x, asTerm(b))
	case *ListV:
		if y, ok := b.(*ListV); ok {
			return s.mergeLists(c, x, y)
		}
		if yi, ok := s.itemsOf(b); ok {
			return s.mergeLists(c, x, &ListV{Items: yi, Elem: x.Elem})
		}
	case *IfaceV:
		y := b.(*IfaceV)
		iv := &IfaceV{Type: Ite(c, x.Type, y.Type), Handle: Ite(c, x.Handle, y.Handle), Static: x.Static, alts: map[int]Value{}}
		xs, ys := x, y
		iv.mk = func(tid int) Value {
			xa, ya := xs.alt(tid), ys.alt(tid)
			if xa == nil {
				return ya
			}
			if ya == nil {
				return xa
			}
			return s.iteValue(c, xa, ya)
		}
		return iv
	case *PtrV:
		y := b.(*PtrV)
		if x.Obj == y.Obj && len(x.Path) == 0 && len(y.Path) == 0 && x.lazy == nil && y.lazy == nil {
			return &PtrV{Nil: Ite(c, x.Nil, y.Nil), Obj: x.Obj, Elem: x.Elem}
		}
		if x.Nil.IsTrue() {
			return &PtrV{Nil: Or(c, y.Nil), Obj: y.Obj, lazy: y.lazy, Path: y.Path, Elem: y.Elem, Addr: y.Addr}
		}
		if y.Nil.IsTrue() {
			return &PtrV{Nil: Or(Not(c), x.Nil), Obj: x.Obj, lazy: x.lazy, Path: x.Path, Elem: x.Elem, Addr: x.Addr}
		}
	case *StructV:
		y := b.(*StructV)
		n := &StructV{Type: x.Type}
		for i := range x.Fields {
			n.Fields = append(n.Fields, s.iteValue(c, x.Fields[i], y.Fields[i]))
		}
		return n
	case *SliceV:
		y := b.(*SliceV)
		if x.object() == y.object() {
			return &SliceV{Obj: x.Obj, Off: Ite(c, x.Off, y.Off), Len: Ite(c, x.Len, y.Len), Cap: Ite(c, x.Cap, y.Cap), Elem: x.Elem}
		}
	case *OpaqueV:
		if y, ok := b.(*OpaqueV); ok && x.T != nil && y.T != nil && x.T.Sort == y.T.Sort {
			return &OpaqueV{Kind: x.Kind, T: Ite(c, x.T, y.T)}
		}
	case *TupleV:
		y := b.(*TupleV)
		n := &TupleV{}
		for i := range x.Vals {
			n.Vals = append(n.Vals, s.iteValue(c, x.Vals[i], y.Vals[i]))
		}
		return n
	case *ArrayV:
		y := b.(*ArrayV)
		if x.Arr != nil && y.Arr != nil {
			xa, ya := x.Arr, y.Arr
			return &ArrayV{Arr: &ArrFn{Base: ya, Lo: Const(64, 0), N: Const(64, maxLen), F: func(rel *Term) *Term {
				return Ite(c, xa.Select(rel), ya.Select(rel))
			}}, N: x.N, Elem: x.Elem}
		}
	}
	unsup("cannot merge %T values in specification code", a)
	return nil
}

// ---- builtins -----------------------------------------------------------------

func (fr *Frame) builtin(in ssa.Instruction, b *ssa.Builtin, c *ssa.CallCommon, args []Value) []Value {
	s := fr.st
	where := fr.loc(in)
	switch b.Name() {
	case "len":
		switch x := args[0].(type) {
		case *ListV:
			var n *Term = Const(64, 0)
			for _, it := range x.Items {
				n = Add(n, Ite(it.Guard, Const(64, 1), Const(64, 0)))
			}
			return []Value{n}
		case *SliceV:
			return []Value{x.Len}
		case *StringV:
			return []Value{x.Len}
		case *ArrayV:
			return []Value{x.N}
		case *PtrV:
			if at, ok := x.Elem.Underlying().(*types.Array); ok {
				return []Value{Const(64, uint64(at.Len()))}
			}
		case *MapV:
			return []Value{s.mapLen(x)}
		case *ChanV:
			return []Value{s.freshVar("chanlen", BV(64))}
		}
	case "cap":
		switch x := args[0].(type) {
		case *SliceV:
			return []Value{x.Cap}
		case *ArrayV:
			return []Value{x.N}
		}
	case "copy":
		dst := args[0].(*SliceV)
		var srcArr Arr
		var srcOff, srcLen *Term
		switch x := args[1].(type) {
		case *SliceV:
			srcArr, srcOff, srcLen = s.sliceArr(x), x.Off, x.Len
		case *StringV:
			srcArr, srcOff, srcLen = x.Arr, Const(64, 0), x.Len
		default:
			unsup("copy from %T", args[1])
		}
		var n *Term
		switch {
		case s.proves(CmpBV("bvsle", srcLen, dst.Len)):
			n = srcLen
		case s.proves(CmpBV("bvsle", dst.Len, srcLen)):
			n = dst.Len
		default:
			n = Ite(CmpBV("bvslt", dst.Len, srcLen), dst.Len, srcLen)
		}
		if o := dst.object(); o != nil {
			av := s.arrayOf(o)
			if av.Arr == nil {
				unsup("copy of non-scalars")
			}
			s.heap[o.ID] = &ArrayV{Arr: &ArrCopy{Base: av.Arr, DstOff: dst.Off, Src: srcArr, SrcOff: srcOff, N: n}, N: av.N, Elem: av.Elem}
		}
		return []Value{n}
	case "append":
		return []Value{fr.appendOp(args, where)}
	case "panic":
		s.check("safety:panic@"+where, False)
		panic(pathEnd{"panic"})
	case "print", "println":
		return nil
	case "ssa:wrapnilchk":
		p := args[0].(*PtrV)
		s.check("safety:nil@"+where, Not(p.Nil))
		return []Value{p}
	case "delete":
		s.mapDelete(args[0].(*MapV), args[1])
		return nil
	case "close":
		ch := args[0].(*ChanV)
		s.check("safety:closenil@"+where, Not(ch.Nil))
		if ch.Obj != nil {
			if s.closedChans[ch.Obj.ID] {
				s.check("safety:closetwice@"+where, False)
			}
			s.closedChans[ch.Obj.ID] = true
			s.log = append(s.log, LogEntry{Callee: "close", Target: ch})
		}
		return nil
	case "min", "max":
		x, y := asTerm(args[0]), asTerm(args[1])
		lt := "bvult"
		if isSigned(c.Args[0].Type()) {
			lt = "bvslt"
		}
		if b.Name() == "min" {
			return []Value{Ite(CmpBV(lt, x, y), x, y)}
		}
		return []Value{Ite(CmpBV(lt, x, y), y, x)}
	}
	unsup("builtin %s on %T", b.Name(), args[0])
	return nil
}

// appendOp models append(s, more...) exactly as the runtime does with respect
// to aliasing: when the spare capacity suffices the elements are written into
// the existing backing array (visible to every other view of it); otherwise a
// fresh array is allocated and the old contents copied.
func (fr *Frame) appendOp(args []Value, where string) Value {
	s := fr.st
	if lv, ok := args[0].(*ListV); ok {
		si, ok2 := s.itemsOf(args[1])
		if !ok2 {
			unsup("append of %T to a list", args[1])
		}
		return &ListV{Items: append(append([]ListItem{}, lv.Items...), si...), Elem: lv.Elem}
	}
	if d0, ok := args[0].(*SliceV); ok {
		if _, scalar := sortOf(d0.Elem); !scalar {
			di, ok1 := s.itemsOf(d0)
			si, ok2 := s.itemsOf(args[1])
			if ok1 && ok2 {
				return &ListV{Items: append(append([]ListItem{}, di...), si...), Elem: d0.Elem}
			}
			unsup("append to a slice of non-scalars that is not a list")
		}
	}
	dst := args[0].(*SliceV)
	var srcArr Arr
	var srcOff, n *Term
	switch x := args[1].(type) {
	case *SliceV:
		if x.object() == nil {
			return dst
		}
		srcArr, srcOff, n = s.sliceArr(x), x.Off, x.Len
	case *StringV:
		srcArr, srcOff, n = x.Arr, Const(64, 0), x.Len
	default:
		unsup("append of %T", args[1])
	}
	newLen := Add(dst.Len, n)
	fits := CmpBV("bvsle", newLen, dst.Cap)
	inPlace := func() Value {
		o := dst.object()
		if o == nil {
			unsup("append in place to nil slice")
		}
		av := s.arrayOf(o)
		s.heap[o.ID] = &ArrayV{Arr: &ArrCopy{Base: av.Arr, DstOff: Add(dst.Off, dst.Len), Src: srcArr, SrcOff: srcOff, N: n}, N: av.N, Elem: av.Elem}
		return &SliceV{Obj: o, Off: dst.Off, Len: newLen, Cap: dst.Cap, Elem: dst.Elem}
	}
	realloc := func() Value {
		w := 8
		if so, ok := sortOf(dst.Elem); ok {
			w = so.W
		}
		var base Arr = &ArrZero{W: w}
		if dst.object() != nil {
			base = &ArrCopy{Base: base, DstOff: Const(64, 0), Src: s.sliceArr(dst), SrcOff: dst.Off, N: dst.Len}
		}
		ncap := s.freshVar("append.cap", BV(64))
		s.assume(CmpBV("bvsle", newLen, ncap))
		s.assume(CmpBV("bvslt", ncap, Const(64, maxLen)))
		contents := &ArrayV{Arr: &ArrCopy{Base: base, DstOff: dst.Len, Src: srcArr, SrcOff: srcOff, N: n}, N: ncap, Elem: dst.Elem}
		o := s.newObj(types.NewArray(dst.Elem, 0), contents, "append", true)
		return &SliceV{Obj: o, Off: Const(64, 0), Len: newLen, Cap: ncap, Elem: dst.Elem}
	}
	if fits.IsTrue() {
		return inPlace()
	}
	if fits.IsFalse() || dst.object() == nil {
		return realloc()
	}
	if s.pure == 0 && s.proves(fits) {
		return inPlace()
	}
	if s.pure == 0 && s.proves(Not(fits)) {
		return realloc()
	}
	if s.pure > 0 {
		unsup("append in specification")
	}
	if s.decide(2, "append") == 0 {
		s.assume(fits)
		return inPlace()
	}
	s.assume(Not(fits))
	return realloc()
}

// ---- contracts at call sites ----------------------------------------------------

func (s *State) evalClause(c *Clause, args []Value, old *Snapshot) *Term {
	return asTerm(s.evalClauseValue(c, args, old))
}

func (s *State) evalClauseValue(c *Clause, args []Value, old *Snapshot) Value {
	fn := s.eng.cfuncs[c.Fn]
	if fn == nil {
		unsup("clause function %s not found", c.Fn)
	}
	if len(args) != len(fn.Params) {
		unsup("clause %s: %d args for %d params", c.Fn, len(args), len(fn.Params))
	}
	saved := s.oldSnap
	s.oldSnap = old
	s.pure++
	defer func() { s.pure--; s.oldSnap = saved }()
	r := s.evalPure(fn, args, nil)
	return r[0]
}

type Region struct {
	Obj   *Obj
	Path  []Sel
	Whole bool  // whole object
	Off   *Term // slice region
	Len   *Term
	Ghost string
}

func (s *State) evalModifies(c *Clause, args []Value) []*Region {
	v := s.evalClauseValue(c, args, s.entry)
	iv, ok := v.(*IfaceV)
	if ok && iv.Type.IsConst() {
		v = iv.alts[int(iv.Type.Val)]
	} else if ok {
		// interface holding a pointer of one of several types: every candidate pointee is in the region
		var out []*Region
		if cw := s.eng.closedWorld(iv.Static); cw != nil {
			for _, t := range cw {
				if p, ok := iv.alt(typeID(t)).(*PtrV); ok {
					if o := p.object(); o != nil {
						out = append(out, &Region{Obj: o, Whole: true})
					}
				}
			}
			return out
		}
		for _, a := range iv.alts {
			if p, ok := a.(*PtrV); ok {
				if o := p.object(); o != nil {
					out = append(out, &Region{Obj: o, Whole: true})
				}
			}
		}
		return out
	}
	r := s.evalModifies1(c, v)
	if r == nil {
		return nil
	}
	return []*Region{r}
}

func (s *State) evalModifies1(c *Clause, v Value) *Region {
	switch x := v.(type) {
	case *PtrV:
		o := x.object()
		if o == nil {
			return nil
		}
		return &Region{Obj: o, Path: x.Path, Whole: len(x.Path) == 0}
	case *SliceV:
		o := x.object()
		if o == nil {
			return nil
		}
		return &Region{Obj: o, Off: x.Off, Len: x.Len}
	case *MapV:
		if x.Obj == nil {
			return nil
		}
		return &Region{Obj: x.Obj, Whole: true}
	case *OpaqueV:
		if x.Kind == "ghostRegion" {
			return &Region{Ghost: x.Aux["name"].(*StringV).litOr("")}
		}
	}
	unsup("modifies item %q evaluates to %T", c.Text, v)
	return nil
}

func (sv *StringV) litOr(d string) string {
	if sv.Lit != nil {
		return *sv.Lit
	}
	return d
}

func (s *State) havocRegion(r *Region, why string) {
	if r == nil || r.Obj == nil {
		return
	}
	o := r.Obj
	cur := s.contents(o)
	if r.Off != nil {
		av := cur.(*ArrayV)
		if av.Arr == nil {
			// table of non-scalars: every element becomes arbitrary
			s.heap[o.ID] = &ArrayV{N: av.N, Elem: av.Elem, Name: s.freshName("havoc." + why + ".table")}
			return
		}
		fv := &ArrVar{Name: s.freshName("havoc." + why), W: av.Arr.ElemW()}
		lo := r.Off
		s.heap[o.ID] = &ArrayV{Arr: &ArrFn{Base: av.Arr, Lo: r.Off, N: r.Len, F: func(rel *Term) *Term { return fv.Select(Add(lo, rel)) }}, N: av.N, Elem: av.Elem}
		return
	}
	if r.Whole {
		nv := s.havocValue(cur, o.Type, "havoc."+why+"."+o.Name)
		// embedded arrays keep their shadow objects (which are havocked too)
		if cs, ok := cur.(*StructV); ok {
			if ns, ok := nv.(*StructV); ok && len(ns.Fields) == len(cs.Fields) {
				for i, f := range cs.Fields {
					if ev, isE := f.(*EmbedV); isE {
						if av, isA := s.contents(ev.Obj).(*ArrayV); isA && av.Arr != nil {
							s.heap[ev.Obj.ID] = &ArrayV{Arr: &ArrVar{Name: s.freshName("havoc." + why + ".embedded"), W: av.Arr.ElemW()}, N: av.N, Elem: av.Elem}
						}
						ns.Fields[i] = ev
					}
				}
			}
		}
		s.heap[o.ID] = nv
		return
	}
	sub := s.navigate(cur, r.Path)
	var t types.Type = o.Type
	pathName := ""
	for _, sel := range r.Path {
		switch u := t.Underlying().(type) {
		case *types.Struct:
			pathName += "." + u.Field(sel.Field).Name()
			t = u.Field(sel.Field).Type()
		case *types.Array:
			t = u.Elem()
		}
	}
	s.heap[o.ID] = s.update(cur, r.Path, s.havocValue(sub, t, "havoc."+why+pathName))
}

// havocValue: fresh value of the same shape (opaque library objects keep their immutable ghost parts).
func (s *State) havocValue(cur Value, t types.Type, name string) Value {
	if ov, ok := cur.(*OpaqueV); ok && ov.Kind == "bufio.Reader" {
		n := &OpaqueV{Kind: ov.Kind, Aux: map[string]Value{}}
		for k, v := range ov.Aux {
			n.Aux[k] = v
		}
		pos := s.freshVar(name+".pos", BV(64))
		s.assume(CmpBV("bvsle", asTerm(ov.Aux["pos"]), pos))
		s.assume(CmpBV("bvsle", pos, asTerm(ov.Aux["avail"])))
		n.Aux["pos"] = pos
		n.Aux["epoch"] = Add(asTerm(ov.Aux["epoch"]), Const(64, 1))
		return n
	}
	if av, ok := cur.(*ArrayV); ok && av.Arr != nil {
		return &ArrayV{Arr: &ArrVar{Name: s.freshName(name), W: av.Arr.ElemW()}, N: av.N, Elem: av.Elem}
	}
	if mc, ok := cur.(*MapContents); ok {
		return &MapContents{KeyT: mc.KeyT, ElemT: mc.ElemT, Base: s.freshName(name)}
	}
	return s.symValue(t, name)
}

func (s *State) applyContract(fn *ssa.Function, fc *FuncContract, args []Value, where string) []Value {
	if s.pure > 0 {
		unsup("call to %s (under contract) inside specification", fn)
	}
	callee := shortFn(fn)
	if fc.Trusted {
		s.eng.trustedUsed[callee] = true
	}
	if s.eng.contractsUsed != nil && !fc.Inline {
		s.eng.contractsUsed[callee] = true
	}
	// preconditions
	for i, c := range fc.Requires {
		g := s.evalClause(c, args, nil)
		s.check(fmt.Sprintf("pre:%s:%s@%s", callee, clauseLabel(c, i), where), g)
	}
	// distinct pointer/slice arguments must not share memory: contracts are proved for separated arguments
	for i := 0; i < len(args); i++ {
		for j := i + 1; j < len(args); j++ {
			oi, oj := argObj(args[i]), argObj(args[j])
			if oi != nil && oi == oj {
				s.check(fmt.Sprintf("pre:%s:noalias(arg%d,arg%d)@%s", callee, i, j, where), False)
			}
		}
	}
	pre := s.snapshot()
	// frame: havoc declared regions
	var regs []*Region
	for _, m := range fc.Modifies {
		if m.When != nil {
			cond := s.evalClause(m.When, args, pre)
			switch {
			case s.proves(cond):
			case s.proves(Not(cond)):
				continue
			default:
				if s.decide(2, "modifies-when") == 0 {
					s.assume(cond)
				} else {
					s.assume(Not(cond))
					continue
				}
			}
		}
		regs = append(regs, s.evalModifies(m, args)...)
	}
	logGrows := false
	for _, r := range regs {
		if r != nil && r.Ghost == "log" {
			logGrows = true
			continue
		}
		s.havocRegion(r, lastSeg(callee))
	}
	if logGrows {
		// the callee may append up to 2 entries to the ghost log; fork on how many
		k := s.decide(3, "logcount:"+callee)
		for i := 0; i < k; i++ {
			nm := fmt.Sprintf("log.%s.%d", lastSeg(callee), i)
			n := s.freshVar(nm+".n", BV(64))
			s.lenAssume(n)
			s.log = append(s.log, LogEntry{Callee: "?", Arr: &ArrVar{Name: s.freshName(nm + ".bytes"), W: 8}, Off: Const(64, 0), N: n,
				RetN: s.freshVar(nm+".ret", BV(64)), Err: s.symValue(errorType(), nm+".err"), Target: &OpaqueV{Kind: "unknown-target"}})
		}
	}
	// results
	var res []Value
	rts := resultTypes(fn.Signature)
	for i, t := range rts {
		res = append(res, s.symValue(t, fmt.Sprintf("%s.%s", lastSeg(callee), fc.Results[i])))
	}
	all := append(append([]Value{}, args...), res...)
	s.callerLogBase = append(s.callerLogBase, pre.logLen)
	s.assuming++
	defer func() { s.assuming-- }()
	for _, c := range fc.Ensures {
		t := s.evalClause(c, all, pre)
		s.assume(t)
	}
	for _, c := range fc.Defines {
		s.assume(s.evalClause(c, all, pre))
	}
	s.callerLogBase = s.callerLogBase[:len(s.callerLogBase)-1]
	return res
}

func clauseLabel(c *Clause, i int) string {
	if c.Name != "" {
		return c.Name
	}
	return fmt.Sprintf("%d", i)
}

var errType types.Type

func errorType() types.Type {
	if errType == nil {
		errType = types.Universe.Lookup("error").Type()
	}
	return errType
}

func argObj(v Value) *Obj {
	switch x := v.(type) {
	case *PtrV:
		if x.Nil.IsTrue() {
			return nil
		}
		return x.object()
	case *SliceV:
		return x.object()
	}
	return nil
}

// assumeResultConvention: a recorded (not executed) call returning (x, error) returns a non-nil x when the
// error is nil (Go convention; listed among the assumptions).
func (s *State) assumeResultConvention(sig *types.Signature, res []Value) {
	n := len(res)
	if n < 2 || !isErrorType(sig.Results().At(n-1).Type()) {
		return
	}
	errv, ok := res[n-1].(*IfaceV)
	if !ok {
		return
	}
	noErr := Eq(errv.Type, Const(32, 0))
	for _, r := range res[:n-1] {
		switch x := r.(type) {
		case *PtrV:
			s.assume(Implies(noErr, Not(x.Nil)))
		case *IfaceV:
			s.assume(Implies(noErr, Ne(x.Type, Const(32, 0))))
		}
	}
}
