package main

// Terms: hash-consed SMT terms over Bool, fixed-width bit-vectors, named
// uninterpreted sorts and (only as opaque arguments of uninterpreted
// functions) arrays BV64 -> BVw.  Every Go integer is a bit-vector of its
// width; no integer is mathematical.

import (
	"fmt"
	"sort"
	"strings"
)

type SortKind int

const (
	KBool SortKind = iota
	KBV
	KU   // uninterpreted sort, Name
	KArr // Array (_ BitVec 64) (_ BitVec W)
)

type Sort struct {
	Kind SortKind
	W    int
	Name string
}

var BoolSort = Sort{Kind: KBool}

func BV(w int) Sort        { return Sort{Kind: KBV, W: w} }
func USort(n string) Sort  { return Sort{Kind: KU, Name: n} }
func ArrSort(w int) Sort   { return Sort{Kind: KArr, W: w} }
func (s Sort) SMT() string {
	switch s.Kind {
	case KBool:
		return "Bool"
	case KBV:
		return fmt.Sprintf("(_ BitVec %d)", s.W)
	case KU:
		return s.Name
	case KArr:
		return fmt.Sprintf("(Array (_ BitVec 64) (_ BitVec %d))", s.W)
	}
	panic("sort")
}

type Term struct {
	Op   string // var const app forall, or SMT operator name
	Sort Sort
	Args []*Term
	Name string // var / app function name / forall bound var name
	Val  uint64 // const
	P1   int    // extract hi / extend amount
	P2   int    // extract lo
	id   int
	key  string
}

var termTable = map[string]*Term{}
var termCount int

// declared uninterpreted functions: name -> signature
type FuncSig struct {
	Name string
	Args []Sort
	Ret  Sort
	// Optional definition (define-fun): parameter vars and body.
	Params []*Term
	Body   *Term
}

var funcSigs = map[string]*FuncSig{}

func resetTerms() {
	termTable = map[string]*Term{}
	termCount = 0
	funcSigs = map[string]*FuncSig{}
}

func mk(op string, s Sort, name string, val uint64, p1, p2 int, args ...*Term) *Term {
	var sb strings.Builder
	sb.WriteString(op)
	sb.WriteByte('|')
	sb.WriteString(s.SMT())
	sb.WriteByte('|')
	sb.WriteString(name)
	fmt.Fprintf(&sb, "|%d|%d|%d", val, p1, p2)
	for _, a := range args {
		fmt.Fprintf(&sb, ",%d", a.id)
	}
	k := sb.String()
	if t, ok := termTable[k]; ok {
		return t
	}
	termCount++
	t := &Term{Op: op, Sort: s, Args: args, Name: name, Val: val, P1: p1, P2: p2, id: termCount, key: k}
	termTable[k] = t
	return t
}

func mask(w int) uint64 {
	if w >= 64 {
		return ^uint64(0)
	}
	return (uint64(1) << uint(w)) - 1
}

var True = mk("true", BoolSort, "", 0, 0, 0)
var False = mk("false", BoolSort, "", 0, 0, 0)

func initConsts() {
	True = mk("true", BoolSort, "", 0, 0, 0)
	False = mk("false", BoolSort, "", 0, 0, 0)
}

func BoolConst(b bool) *Term {
	if b {
		return True
	}
	return False
}
func Const(w int, v uint64) *Term { return mk("const", BV(w), "", v&mask(w), 0, 0) }
func Var(name string, s Sort) *Term { return mk("var", s, name, 0, 0, 0) }
func (t *Term) IsConst() bool        { return t.Op == "const" }
func (t *Term) IsTrue() bool         { return t.Op == "true" }
func (t *Term) IsFalse() bool        { return t.Op == "false" }

func signExt(v uint64, w int) int64 {
	if w >= 64 {
		return int64(v)
	}
	if v&(1<<uint(w-1)) != 0 {
		return int64(v | ^mask(w))
	}
	return int64(v)
}

func Not(a *Term) *Term {
	switch {
	case a.IsTrue():
		return False
	case a.IsFalse():
		return True
	case a.Op == "not":
		return a.Args[0]
	}
	return mk("not", BoolSort, "", 0, 0, 0, a)
}

func And(as ...*Term) *Term {
	var out []*Term
	seen := map[int]bool{}
	for _, a := range as {
		if a.IsFalse() {
			return False
		}
		if a.IsTrue() {
			continue
		}
		if a.Op == "and" {
			for _, b := range a.Args {
				if !seen[b.id] {
					seen[b.id] = true
					out = append(out, b)
				}
			}
			continue
		}
		if !seen[a.id] {
			seen[a.id] = true
			out = append(out, a)
		}
	}
	for _, a := range out {
		if a.Op == "not" && seen[a.Args[0].id] {
			return False
		}
	}
	if len(out) == 0 {
		return True
	}
	if len(out) == 1 {
		return out[0]
	}
	return mk("and", BoolSort, "", 0, 0, 0, out...)
}

func Or(as ...*Term) *Term {
	var out []*Term
	seen := map[int]bool{}
	for _, a := range as {
		if a.IsTrue() {
			return True
		}
		if a.IsFalse() {
			continue
		}
		if a.Op == "or" {
			for _, b := range a.Args {
				if !seen[b.id] {
					seen[b.id] = true
					out = append(out, b)
				}
			}
			continue
		}
		if !seen[a.id] {
			seen[a.id] = true
			out = append(out, a)
		}
	}
	for _, a := range out {
		if a.Op == "not" && seen[a.Args[0].id] {
			return True
		}
	}
	if len(out) == 0 {
		return False
	}
	if len(out) == 1 {
		return out[0]
	}
	return mk("or", BoolSort, "", 0, 0, 0, out...)
}

func Implies(a, b *Term) *Term { return Or(Not(a), b) }

func Ite(c, a, b *Term) *Term {
	if c.IsTrue() {
		return a
	}
	if c.IsFalse() {
		return b
	}
	if a == b {
		return a
	}
	if a.Sort.Kind == KBool {
		if a.IsTrue() && b.IsFalse() {
			return c
		}
		if a.IsFalse() && b.IsTrue() {
			return Not(c)
		}
		if a.IsTrue() {
			return Or(c, b)
		}
		if a.IsFalse() {
			return And(Not(c), b)
		}
		if b.IsTrue() {
			return Or(Not(c), a)
		}
		if b.IsFalse() {
			return And(c, a)
		}
	}
	if a.Sort != b.Sort {
		panic(fmt.Sprintf("ite sort mismatch %s %s", a.Sort.SMT(), b.Sort.SMT()))
	}
	return mk("ite", a.Sort, "", 0, 0, 0, c, a, b)
}

func Eq(a, b *Term) *Term {
	if a == b {
		return True
	}
	if a.Sort != b.Sort {
		panic(fmt.Sprintf("eq sort mismatch %s vs %s (%s, %s)", a.Sort.SMT(), b.Sort.SMT(), a, b))
	}
	if a.IsConst() && b.IsConst() {
		return BoolConst(a.Val == b.Val)
	}
	if a.Sort.Kind == KBool {
		if a.IsTrue() {
			return b
		}
		if b.IsTrue() {
			return a
		}
		if a.IsFalse() {
			return Not(b)
		}
		if b.IsFalse() {
			return Not(a)
		}
	}
	// ite(c, k1, k2) == k  with constants
	if b.IsConst() && a.Op == "ite" && a.Args[1].IsConst() && a.Args[2].IsConst() {
		return Ite(a.Args[0], Eq(a.Args[1], b), Eq(a.Args[2], b))
	}
	if a.IsConst() && b.Op == "ite" && b.Args[1].IsConst() && b.Args[2].IsConst() {
		return Ite(b.Args[0], Eq(b.Args[1], a), Eq(b.Args[2], a))
	}
	if a.id > b.id {
		a, b = b, a
	}
	return mk("=", BoolSort, "", 0, 0, 0, a, b)
}

func Ne(a, b *Term) *Term { return Not(Eq(a, b)) }

// BinBV builds a bit-vector binary operation with constant folding.
func BinBV(op string, a, b *Term) *Term {
	if a.Sort != b.Sort || a.Sort.Kind != KBV {
		panic(fmt.Sprintf("binbv %s sort mismatch %s %s", op, a.Sort.SMT(), b.Sort.SMT()))
	}
	w := a.Sort.W
	if a.IsConst() && b.IsConst() {
		x, y := a.Val, b.Val
		var r uint64
		ok := true
		switch op {
		case "bvadd":
			r = x + y
		case "bvsub":
			r = x - y
		case "bvmul":
			r = x * y
		case "bvand":
			r = x & y
		case "bvor":
			r = x | y
		case "bvxor":
			r = x ^ y
		case "bvshl":
			if y >= uint64(w) {
				r = 0
			} else {
				r = x << y
			}
		case "bvlshr":
			if y >= uint64(w) {
				r = 0
			} else {
				r = x >> y
			}
		case "bvashr":
			sx := signExt(x, w)
			if y >= uint64(w) {
				if sx < 0 {
					r = ^uint64(0)
				} else {
					r = 0
				}
			} else {
				r = uint64(sx >> y)
			}
		case "bvudiv":
			if y == 0 {
				ok = false
			} else {
				r = x / y
			}
		case "bvurem":
			if y == 0 {
				ok = false
			} else {
				r = x % y
			}
		case "bvsdiv":
			if y == 0 {
				ok = false
			} else {
				sx, sy := signExt(x, w), signExt(y, w)
				if sy == -1 {
					r = uint64(-sx)
				} else {
					r = uint64(sx / sy)
				}
			}
		case "bvsrem":
			if y == 0 {
				ok = false
			} else {
				sx, sy := signExt(x, w), signExt(y, w)
				if sy == -1 {
					r = 0
				} else {
					r = uint64(sx % sy)
				}
			}
		default:
			ok = false
		}
		if ok {
			return Const(w, r)
		}
	}
	switch op {
	case "bvadd":
		if a.IsConst() && a.Val == 0 {
			return b
		}
		if b.IsConst() && b.Val == 0 {
			return a
		}
		// (x + c1) + c2 -> x + (c1+c2)
		if b.IsConst() && a.Op == "bvadd" && a.Args[1].IsConst() {
			return BinBV("bvadd", a.Args[0], Const(w, a.Args[1].Val+b.Val))
		}
		if a.IsConst() && !b.IsConst() {
			return BinBV("bvadd", b, a)
		}
	case "bvsub":
		if b.IsConst() && b.Val == 0 {
			return a
		}
		if a == b {
			return Const(w, 0)
		}
		if b.IsConst() {
			return BinBV("bvadd", a, Const(w, -b.Val))
		}
		// (x + y) - x -> y ; (x + y) - y -> x
		if a.Op == "bvadd" {
			if a.Args[0] == b {
				return a.Args[1]
			}
			if a.Args[1] == b {
				return a.Args[0]
			}
		}
	case "bvand":
		if b.IsConst() && b.Val == mask(w) {
			return a
		}
		if a.IsConst() && a.Val == mask(w) {
			return b
		}
		if (a.IsConst() && a.Val == 0) || (b.IsConst() && b.Val == 0) {
			return Const(w, 0)
		}
	case "bvor", "bvxor":
		if b.IsConst() && b.Val == 0 {
			return a
		}
		if a.IsConst() && a.Val == 0 {
			return b
		}
	case "bvshl", "bvlshr", "bvashr":
		if b.IsConst() && b.Val == 0 {
			return a
		}
	case "bvmul":
		if b.IsConst() && b.Val == 1 {
			return a
		}
		if a.IsConst() && a.Val == 1 {
			return b
		}
	}
	return mk(op, a.Sort, "", 0, 0, 0, a, b)
}

func Add(a, b *Term) *Term { return BinBV("bvadd", a, b) }
func Sub(a, b *Term) *Term { return BinBV("bvsub", a, b) }

// CmpBV builds bvult/bvule/bvslt/bvsle.
func CmpBV(op string, a, b *Term) *Term {
	if a.Sort != b.Sort || a.Sort.Kind != KBV {
		panic(fmt.Sprintf("cmpbv %s sort mismatch %s %s", op, a.Sort.SMT(), b.Sort.SMT()))
	}
	w := a.Sort.W
	if a.IsConst() && b.IsConst() {
		switch op {
		case "bvult":
			return BoolConst(a.Val < b.Val)
		case "bvule":
			return BoolConst(a.Val <= b.Val)
		case "bvslt":
			return BoolConst(signExt(a.Val, w) < signExt(b.Val, w))
		case "bvsle":
			return BoolConst(signExt(a.Val, w) <= signExt(b.Val, w))
		}
	}
	if a == b {
		return BoolConst(op == "bvule" || op == "bvsle")
	}
	// zero-extended values compared with constants
	if op == "bvslt" || op == "bvsle" {
		if a.Op == "zext" && b.IsConst() {
			sb := signExt(b.Val, w)
			if sb < 0 {
				return False
			}
			if uint64(sb) > mask(a.Args[0].Sort.W) {
				return True
			}
		}
		if b.Op == "zext" && a.IsConst() {
			sa := signExt(a.Val, w)
			if sa < 0 || (op == "bvsle" && sa == 0) {
				return True
			}
		}
	}
	return mk(op, BoolSort, "", 0, 0, 0, a, b)
}

func Extract(hi, lo int, a *Term) *Term {
	w := hi - lo + 1
	if lo == 0 && w == a.Sort.W {
		return a
	}
	if a.IsConst() {
		return Const(w, a.Val>>uint(lo))
	}
	if a.Op == "zext" && lo == 0 {
		iw := a.Args[0].Sort.W
		if w == iw {
			return a.Args[0]
		}
		if w < iw {
			return Extract(hi, 0, a.Args[0])
		}
		return ZExt(w, a.Args[0])
	}
	if a.Op == "sext" && lo == 0 {
		iw := a.Args[0].Sort.W
		if w == iw {
			return a.Args[0]
		}
		if w < iw {
			return Extract(hi, 0, a.Args[0])
		}
	}
	return mk("extract", BV(w), "", 0, hi, lo, a)
}

func ZExt(w int, a *Term) *Term {
	if a.Sort.W == w {
		return a
	}
	if a.Sort.W > w {
		return Extract(w-1, 0, a)
	}
	if a.IsConst() {
		return Const(w, a.Val)
	}
	if a.Op == "zext" {
		return ZExt(w, a.Args[0])
	}
	return mk("zext", BV(w), "", 0, w-a.Sort.W, 0, a)
}

func SExt(w int, a *Term) *Term {
	if a.Sort.W == w {
		return a
	}
	if a.Sort.W > w {
		return Extract(w-1, 0, a)
	}
	if a.IsConst() {
		return Const(w, uint64(signExt(a.Val, a.Sort.W)))
	}
	if a.Op == "zext" {
		return ZExt(w, a.Args[0])
	}
	return mk("sext", BV(w), "", 0, w-a.Sort.W, 0, a)
}

func Concat(a, b *Term) *Term {
	if a.IsConst() && b.IsConst() && a.Sort.W+b.Sort.W <= 64 {
		return Const(a.Sort.W+b.Sort.W, a.Val<<uint(b.Sort.W)|b.Val)
	}
	return mk("concat", BV(a.Sort.W+b.Sort.W), "", 0, 0, 0, a, b)
}

func BVNot(a *Term) *Term {
	if a.IsConst() {
		return Const(a.Sort.W, ^a.Val)
	}
	return mk("bvnot", a.Sort, "", 0, 0, 0, a)
}
func BVNeg(a *Term) *Term {
	if a.IsConst() {
		return Const(a.Sort.W, -a.Val)
	}
	return mk("bvneg", a.Sort, "", 0, 0, 0, a)
}

// App applies a declared (uninterpreted or defined) function.
func App(name string, ret Sort, args ...*Term) *Term {
	if _, ok := funcSigs[name]; !ok {
		sig := &FuncSig{Name: name, Ret: ret}
		for _, a := range args {
			sig.Args = append(sig.Args, a.Sort)
		}
		funcSigs[name] = sig
	}
	return mk("app", ret, name, 0, 0, 0, args...)
}

// SelectT: select on an SMT array term (only array *variables* reach SMT).
func SelectT(arr, idx *Term) *Term {
	return mk("select", BV(arr.Sort.W), "", 0, 0, 0, arr, idx)
}

// Forall builds a universally quantified hypothesis over one BV variable.
func Forall(bound *Term, body *Term) *Term {
	if body.IsTrue() {
		return True
	}
	return mk("forall", BoolSort, bound.Name, 0, bound.Sort.W, 0, body)
}

func (t *Term) String() string {
	var sb strings.Builder
	printTerm(&sb, t, nil, 0)
	s := sb.String()
	if len(s) > 400 {
		return s[:400] + "..."
	}
	return s
}

func smtName(n string) string {
	ok := true
	for _, c := range n {
		if !(c == '_' || c == '.' || c == '!' || c == '$' || (c >= '0' && c <= '9') || (c >= 'a' && c <= 'z') || (c >= 'A' && c <= 'Z')) {
			ok = false
		}
	}
	if ok && len(n) > 0 && !(n[0] >= '0' && n[0] <= '9') {
		return n
	}
	return "|" + strings.ReplaceAll(n, "|", "_") + "|"
}

// printTerm prints t; nodes present in names are printed by name.
func printTerm(sb *strings.Builder, t *Term, names map[int]string, depth int) {
	if names != nil {
		if n, ok := names[t.id]; ok {
			sb.WriteString(n)
			return
		}
	}
	switch t.Op {
	case "true", "false":
		sb.WriteString(t.Op)
	case "const":
		w := t.Sort.W
		if w%4 == 0 {
			fmt.Fprintf(sb, "#x%0*x", w/4, t.Val)
		} else {
			fmt.Fprintf(sb, "#b%0*b", w, t.Val)
		}
	case "var":
		sb.WriteString(smtName(t.Name))
	case "app":
		if len(t.Args) == 0 {
			sb.WriteString(smtName(t.Name))
			return
		}
		sb.WriteString("(" + smtName(t.Name))
		for _, a := range t.Args {
			sb.WriteByte(' ')
			printTerm(sb, a, names, depth+1)
		}
		sb.WriteByte(')')
	case "extract":
		fmt.Fprintf(sb, "((_ extract %d %d) ", t.P1, t.P2)
		printTerm(sb, t.Args[0], names, depth+1)
		sb.WriteByte(')')
	case "zext":
		fmt.Fprintf(sb, "((_ zero_extend %d) ", t.P1)
		printTerm(sb, t.Args[0], names, depth+1)
		sb.WriteByte(')')
	case "sext":
		fmt.Fprintf(sb, "((_ sign_extend %d) ", t.P1)
		printTerm(sb, t.Args[0], names, depth+1)
		sb.WriteByte(')')
	case "forall":
		fmt.Fprintf(sb, "(forall ((%s (_ BitVec %d))) ", smtName(t.Name), t.P1)
		printSharedUnder(sb, t.Args[0], names)
		sb.WriteByte(')')
	default:
		sb.WriteString("(" + t.Op)
		for _, a := range t.Args {
			sb.WriteByte(' ')
			printTerm(sb, a, names, depth+1)
		}
		sb.WriteByte(')')
	}
}

// containsVar reports whether t mentions the variable named n.
func containsVar(t *Term, n string, memo map[int]bool) bool {
	if v, ok := memo[t.id]; ok {
		return v
	}
	r := false
	if t.Op == "var" && t.Name == n {
		r = true
	} else {
		for _, a := range t.Args {
			if containsVar(a, n, memo) {
				r = true
				break
			}
		}
	}
	memo[t.id] = r
	return r
}

// Query renders hyps |- goal as an SMT-LIB2 script asserting hyps and (not goal).
// Shared sub-terms are introduced by define-fun in dependency order. Terms
// under a quantifier that mention the bound variable are printed inline.
var abstractDefs bool

func Query(hyps []*Term, goal *Term, wantModel bool) string {
	return QueryOpt(hyps, goal, wantModel, false)
}

// QueryOpt: with abstract=true, spec helpers that have a definition are only declared (uninterpreted):
// proving with less information is sound, and usually much faster.
func QueryOpt(hyps []*Term, goal *Term, wantModel bool, abstract bool) string {
	roots := append([]*Term{}, hyps...)
	if goal != nil {
		roots = append(roots, Not(goal))
	}
	// collect
	vars := map[string]Sort{}
	funcs := map[string]bool{}
	usorts := map[string]bool{}
	refs := map[int]int{}
	var order []*Term
	seen := map[int]bool{}
	bound := map[string]bool{}
	var visit func(t *Term)
	visit = func(t *Term) {
		refs[t.id]++
		if seen[t.id] {
			return
		}
		seen[t.id] = true
		if t.Op == "forall" {
			bound[t.Name] = true
		}
		for _, a := range t.Args {
			visit(a)
		}
		if t.Sort.Kind == KU {
			usorts[t.Sort.Name] = true
		}
		switch t.Op {
		case "var":
			vars[t.Name] = t.Sort
		case "app":
			funcs[t.Name] = true
		}
		order = append(order, t)
	}
	for _, r := range roots {
		visit(r)
	}
	// functions used inside definitions of defined functions
	var fnames []string
	fseen := map[string]bool{}
	var addFunc func(n string)
	addFunc = func(n string) {
		if fseen[n] {
			return
		}
		fseen[n] = true
		sig := funcSigs[n]
		if sig != nil && sig.Body != nil && !abstract {
			var v2 func(t *Term, m map[int]bool)
			v2 = func(t *Term, m map[int]bool) {
				if m[t.id] {
					return
				}
				m[t.id] = true
				if t.Op == "app" {
					addFunc(t.Name)
				}
				if t.Sort.Kind == KU {
					usorts[t.Sort.Name] = true
				}
				for _, a := range t.Args {
					v2(a, m)
				}
			}
			v2(sig.Body, map[int]bool{})
		}
		if sig != nil {
			for _, s := range sig.Args {
				if s.Kind == KU {
					usorts[s.Name] = true
				}
			}
			if sig.Ret.Kind == KU {
				usorts[sig.Ret.Name] = true
			}
		}
		fnames = append(fnames, n)
	}
	var fl []string
	for n := range funcs {
		fl = append(fl, n)
	}
	sort.Strings(fl)
	for _, n := range fl {
		addFunc(n)
	}

	var sb strings.Builder
	if wantModel {
		sb.WriteString("(set-option :produce-models true)\n")
	}
	sb.WriteString("(set-logic ALL)\n")
	var us []string
	for n := range usorts {
		us = append(us, n)
	}
	sort.Strings(us)
	for _, n := range us {
		fmt.Fprintf(&sb, "(declare-sort %s 0)\n", n)
	}
	var vl []string
	for n := range vars {
		if !bound[n] {
			vl = append(vl, n)
		}
	}
	sort.Strings(vl)
	for _, n := range vl {
		fmt.Fprintf(&sb, "(declare-fun %s () %s)\n", smtName(n), vars[n].SMT())
	}
	for _, n := range fnames {
		sig := funcSigs[n]
		if sig == nil {
			continue
		}
		if sig.Body != nil && !abstract {
			fmt.Fprintf(&sb, "(define-fun %s (", smtName(n))
			for i, p := range sig.Params {
				if i > 0 {
					sb.WriteByte(' ')
				}
				fmt.Fprintf(&sb, "(%s %s)", smtName(p.Name), p.Sort.SMT())
			}
			fmt.Fprintf(&sb, ") %s ", sig.Ret.SMT())
			printShared(&sb, sig.Body)
			sb.WriteString(")\n")
		} else {
			fmt.Fprintf(&sb, "(declare-fun %s (", smtName(n))
			for i, s := range sig.Args {
				if i > 0 {
					sb.WriteByte(' ')
				}
				sb.WriteString(s.SMT())
			}
			fmt.Fprintf(&sb, ") %s)\n", sig.Ret.SMT())
		}
	}
	// shared nodes
	names := map[int]string{}
	bmemo := map[string]map[int]bool{}
	mentionsBound := func(t *Term) bool {
		for b := range bound {
			m := bmemo[b]
			if m == nil {
				m = map[int]bool{}
				bmemo[b] = m
			}
			if containsVar(t, b, m) {
				return true
			}
		}
		return false
	}
	for _, t := range order {
		if len(t.Args) == 0 {
			continue
		}
		if refs[t.id] < 2 {
			continue
		}
		if len(bound) > 0 && mentionsBound(t) {
			continue
		}
		n := fmt.Sprintf("t!%d", t.id)
		fmt.Fprintf(&sb, "(define-fun %s () %s ", n, t.Sort.SMT())
		// print without using its own name
		printTermTop(&sb, t, names)
		sb.WriteString(")\n")
		names[t.id] = n
	}
	for _, h := range hyps {
		sb.WriteString("(assert ")
		printTerm(&sb, h, names, 0)
		sb.WriteString(")\n")
	}
	if goal != nil {
		sb.WriteString("(assert ")
		printTerm(&sb, Not(goal), names, 0)
		sb.WriteString(")\n")
	}
	sb.WriteString("(check-sat)\n")
	if wantModel {
		sb.WriteString("(get-model)\n")
	}
	return sb.String()
}

func printTermTop(sb *strings.Builder, t *Term, names map[int]string) {
	// like printTerm but does not substitute t itself
	saved, had := names[t.id]
	delete(names, t.id)
	printTerm(sb, t, names, 0)
	if had {
		names[t.id] = saved
	}
}

// printShared prints a term with let-bindings for shared nodes (used for define-fun bodies).
func printShared(sb *strings.Builder, t *Term) {
	refs := map[int]int{}
	var order []*Term
	seen := map[int]bool{}
	var visit func(t *Term)
	visit = func(t *Term) {
		refs[t.id]++
		if seen[t.id] {
			return
		}
		seen[t.id] = true
		for _, a := range t.Args {
			visit(a)
		}
		order = append(order, t)
	}
	visit(t)
	names := map[int]string{}
	n := 0
	for _, u := range order {
		if len(u.Args) == 0 || refs[u.id] < 2 || u == t {
			continue
		}
		nm := fmt.Sprintf("l!%d", u.id)
		sb.WriteString("(let ((" + nm + " ")
		printTermTop(sb, u, names)
		sb.WriteString(")) ")
		names[u.id] = nm
		n++
	}
	printTerm(sb, t, names, 0)
	for i := 0; i < n; i++ {
		sb.WriteByte(')')
	}
}

// printSharedUnder prints the body of a quantifier: sub-terms used more than once inside the body (and not already
// named outside) are bound by let, so the text stays linear in the DAG size.  Nested quantifiers are leaves here
// (their bodies are shared by their own printSharedUnder, inside their binder).
func printSharedUnder(sb *strings.Builder, t *Term, outer map[int]string) {
	refs := map[int]int{}
	var order []*Term
	seen := map[int]bool{}
	var visit func(u *Term)
	visit = func(u *Term) {
		if outer != nil {
			if _, ok := outer[u.id]; ok {
				return
			}
		}
		refs[u.id]++
		if seen[u.id] {
			return
		}
		seen[u.id] = true
		if u.Op != "forall" {
			for _, a := range u.Args {
				visit(a)
			}
		}
		order = append(order, u)
	}
	visit(t)
	shared := 0
	for _, u := range order {
		if len(u.Args) > 0 && refs[u.id] >= 2 && u != t {
			shared++
		}
	}
	if shared == 0 {
		printTerm(sb, t, outer, 0)
		return
	}
	names := map[int]string{}
	for k, v := range outer {
		names[k] = v
	}
	n := 0
	for _, u := range order {
		if len(u.Args) == 0 || refs[u.id] < 2 || u == t {
			continue
		}
		nm := fmt.Sprintf("l!%d", u.id)
		sb.WriteString("(let ((" + nm + " ")
		printTermTop(sb, u, names)
		sb.WriteString(")) ")
		names[u.id] = nm
		n++
	}
	printTerm(sb, t, names, 0)
	for i := 0; i < n; i++ {
		sb.WriteByte(')')
	}
}

// termSize counts DAG nodes.
func termSize(ts ...*Term) int {
	seen := map[int]bool{}
	var visit func(t *Term)
	visit = func(t *Term) {
		if seen[t.id] {
			return
		}
		seen[t.id] = true
		for _, a := range t.Args {
			visit(a)
		}
	}
	for _, t := range ts {
		visit(t)
	}
	return len(seen)
}
