package main

import (
	"fmt"
	"go/types"

	"golang.org/x/tools/go/ssa"
)

// Values.  Scalars are *Term.  Everything else is a Go-side structure whose
// leaves are terms.  Values are immutable, except that the pointee of a
// symbolic pointer and the per-type payload of a symbolic interface are
// created lazily (benign: they denote what the value pointed to all along).

type Value interface{}

// Obj: a heap object with concrete identity.  Its contents live in State.heap.
type Obj struct {
	ID    int
	Type  types.Type // type of contents
	Pre   bool       // existed before the function under verification was entered (or was created by a callee contract)
	Fresh bool       // allocated during the call under verification (by its own code or a callee declaring freshness)
	Name  string
	Init  Value // initial contents (materialised when created)
	Ghost string // "bufio", "sha", ... for opaque library objects
	ReadOnly bool
	Shared   bool // written by a goroutine spawned by the function under verification: every load is arbitrary
}

// Sel: one step of an address path inside an object.
type Sel struct {
	Field int   // >=0: struct field
	Index *Term // element index (BV64) when Field < 0
}

type PtrV struct {
	Nil  *Term // Bool: pointer is nil
	Obj  *Obj  // nil iff definitely nil; lazily created otherwise
	Path []Sel
	Elem types.Type // pointee type
	lazy func() *Obj
	Addr *Term // symbolic identity (BV64) of a pointer taken from the pre-state or received from a peer
}

type SliceV struct {
	Obj  *Obj // nil => nil slice (Len must be 0)
	Off  *Term
	Len  *Term
	Cap  *Term
	Elem types.Type
	lazy func() *Obj
}

type StringV struct {
	Arr Arr
	Len *Term
	Lit *string // when a literal
	Itoa *Term     // strconv.Itoa(x): abstract decimal numeral of x
	ID   *Term     // identity of a string that comes from the reflect model (rtype.go): same ID, same string
	Join *JoinInfo // strings.Join(items, sep)
}

type StructV struct {
	Type   types.Type
	Fields []Value
}

type ArrayV struct {
	Arr  Arr // scalar elements
	N    *Term // number of elements (constant for Go arrays; symbolic for slice backing stores)
	Elem types.Type
	Vals []Value // for non-scalar element types with constant length
	sym  map[int]Value // elements at symbolic indices (read-only tables)
	Name string
}

// EmbedV: the value of an array field whose contents live in a shadow object (created when the field is sliced).
type EmbedV struct{ Obj *Obj }

type IfaceV struct {
	Type   *Term // BV32 type id; 0 = nil interface
	Handle *Term // BV64 opaque identity of the dynamic value
	Static types.Type
	alts   map[int]Value // payload per concrete type id (lazily materialised)
	mk     func(tid int) Value
}

type TupleV struct{ Vals []Value }

type ClosureV struct {
	Fn       *ssa.Function
	Bindings []Value
}

type FuncV struct{ Fn *ssa.Function }

type MapV struct {
	Obj *Obj
	Nil *Term
}

type ChanV struct {
	Obj *Obj
	Nil *Term
}

// OpaqueV: values of types the engine does not look into (time.Time, reflect.Value ...).
type OpaqueV struct {
	Kind string
	T    *Term
	Aux  map[string]Value
}

func (s *SliceV) object() *Obj {
	if s.Obj == nil && s.lazy != nil {
		s.Obj = s.lazy()
		s.lazy = nil
	}
	return s.Obj
}

func (p *PtrV) object() *Obj {
	if p.Obj == nil && p.lazy != nil {
		p.Obj = p.lazy()
		p.lazy = nil
	}
	return p.Obj
}

// type ids ----------------------------------------------------------------

var typeIDs = map[string]int{}
var typeByID = map[int]types.Type{}

func typeID(t types.Type) int {
	k := types.TypeString(t, nil)
	if id, ok := typeIDs[k]; ok {
		if typeByID[id] == nil {
			typeByID[id] = t // the name was registered first by a contract (dynIs)
		}
		return id
	}
	id := len(typeIDs) + 1
	typeIDs[k] = id
	typeByID[id] = t
	return id
}

func namedTypeID(name string) int {
	if id, ok := typeIDs[name]; ok {
		return id
	}
	id := len(typeIDs) + 1
	typeIDs[name] = id
	return id
}

func typeNameOfID(id int) string {
	for k, v := range typeIDs {
		if v == id {
			return k
		}
	}
	return fmt.Sprintf("type#%d", id)
}

// sortOf maps a Go scalar type to an SMT sort; ok=false for non-scalars.
func sortOf(t types.Type) (Sort, bool) {
	switch u := t.Underlying().(type) {
	case *types.Basic:
		switch u.Kind() {
		case types.Bool, types.UntypedBool:
			return BoolSort, true
		case types.Int8, types.Uint8:
			return BV(8), true
		case types.Int16, types.Uint16:
			return BV(16), true
		case types.Int32, types.Uint32, types.UntypedRune:
			return BV(32), true
		case types.Int64, types.Uint64, types.Int, types.Uint, types.Uintptr, types.UntypedInt:
			return BV(64), true
		case types.Float32:
			return BV(32), true // opaque bit pattern
		case types.Float64, types.UntypedFloat:
			return BV(64), true // opaque bit pattern
		}
	}
	return Sort{}, false
}

func isSigned(t types.Type) bool {
	if b, ok := t.Underlying().(*types.Basic); ok {
		switch b.Kind() {
		case types.Int, types.Int8, types.Int16, types.Int32, types.Int64, types.UntypedInt, types.UntypedRune:
			return true
		}
	}
	return false
}

func isFloat(t types.Type) bool {
	if b, ok := t.Underlying().(*types.Basic); ok {
		return b.Info()&types.IsFloat != 0
	}
	return false
}

func isByteSlice(t types.Type) bool {
	if s, ok := t.Underlying().(*types.Slice); ok {
		if b, ok := s.Elem().Underlying().(*types.Basic); ok {
			return b.Kind() == types.Uint8
		}
	}
	return false
}

func isErrorType(t types.Type) bool {
	return types.TypeString(t, nil) == "error"
}
