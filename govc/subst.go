package main

// substVar rebuilds t with variable `name` replaced by repl (through the simplifying constructors).
func substVar(t *Term, name string, repl *Term, memo map[int]*Term) *Term {
	if r, ok := memo[t.id]; ok {
		return r
	}
	var r *Term
	switch t.Op {
	case "var":
		if t.Name == name {
			r = repl
		} else {
			r = t
		}
	case "const", "true", "false":
		r = t
	default:
		args := make([]*Term, len(t.Args))
		changed := false
		for i, a := range t.Args {
			args[i] = substVar(a, name, repl, memo)
			if args[i] != a {
				changed = true
			}
		}
		if !changed {
			r = t
		} else {
			r = rebuild(t, args)
		}
	}
	memo[t.id] = r
	return r
}

func rebuild(t *Term, a []*Term) *Term {
	switch t.Op {
	case "not":
		return Not(a[0])
	case "and":
		return And(a...)
	case "or":
		return Or(a...)
	case "ite":
		return Ite(a[0], a[1], a[2])
	case "=":
		return Eq(a[0], a[1])
	case "bvadd", "bvsub", "bvmul", "bvand", "bvor", "bvxor", "bvshl", "bvlshr", "bvashr", "bvudiv", "bvurem", "bvsdiv", "bvsrem":
		return BinBV(t.Op, a[0], a[1])
	case "bvult", "bvule", "bvslt", "bvsle":
		return CmpBV(t.Op, a[0], a[1])
	case "extract":
		return Extract(t.P1, t.P2, a[0])
	case "zext":
		return ZExt(t.Sort.W, a[0])
	case "sext":
		return SExt(t.Sort.W, a[0])
	case "bvnot":
		return BVNot(a[0])
	case "bvneg":
		return BVNeg(a[0])
	case "app":
		return mk("app", t.Sort, t.Name, 0, 0, 0, a...)
	case "select":
		return SelectT(a[0], a[1])
	case "forall":
		return mk("forall", BoolSort, t.Name, 0, t.P1, 0, a[0])
	}
	return mk(t.Op, t.Sort, t.Name, t.Val, t.P1, t.P2, a...)
}

// freeIndexVars: BV64 variables of the goal that came from stripped quantifiers (named k.*).
func skolemVars(t *Term, out map[string]*Term, seen map[int]bool) {
	if seen[t.id] {
		return
	}
	seen[t.id] = true
	if t.Op == "var" && t.Sort.Kind == KBV && len(t.Name) > 2 && t.Name[:2] == "k." {
		out[t.Name] = t
	}
	if t.Op == "forall" {
		// bound variable is not free
		inner := map[string]*Term{}
		skolemVars(t.Args[0], inner, seen)
		for n, v := range inner {
			if n != t.Name {
				out[n] = v
			}
		}
		return
	}
	for _, a := range t.Args {
		skolemVars(a, out, seen)
	}
}

// instantiate adds, for every universally quantified hypothesis, its instances at the goal's skolem constants.
func instantiate(hyps []*Term, goal *Term) []*Term {
	cands := map[string]*Term{}
	skolemVars(goal, cands, map[int]bool{})
	for _, h := range hyps {
		if h.Op != "forall" {
			skolemVars(h, cands, map[int]bool{})
		}
	}
	if len(cands) == 0 {
		return hyps
	}
	out := append([]*Term{}, hyps...)
	for _, h := range hyps {
		if h.Op != "forall" {
			continue
		}
		for _, c := range cands {
			if c.Sort.W != h.P1 {
				continue
			}
			out = append(out, substVar(h.Args[0], h.Name, c, map[int]*Term{}))
		}
	}
	return out
}
