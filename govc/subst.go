package main

import "fmt"

// substVar rebuilds t with variable `name` replaced by repl (through the simplifying constructors).
func substVar(t *Term, name string, repl *Term, memo map[int]*Term) *Term {
	if r, ok := memo[t.id]; ok {
		return r
	}
	var r *Term
	switch t.Op {
	case "var":
		if t.Name == name {
			r = repl
		} else {
			r = t
		}
	case "const", "true", "false":
		r = t
	default:
		args := make([]*Term, len(t.Args))
		changed := false
		for i, a := range t.Args {
			args[i] = substVar(a, name, repl, memo)
			if args[i] != a {
				changed = true
			}
		}
		if !changed {
			r = t
		} else {
			r = rebuild(t, args)
		}
	}
	memo[t.id] = r
	return r
}

func rebuild(t *Term, a []*Term) *Term {
	switch t.Op {
	case "not":
		return Not(a[0])
	case "and":
		return And(a...)
	case "or":
		return Or(a...)
	case "ite":
		return Ite(a[0], a[1], a[2])
	case "=":
		return Eq(a[0], a[1])
	case "bvadd", "bvsub", "bvmul", "bvand", "bvor", "bvxor", "bvshl", "bvlshr", "bvashr", "bvudiv", "bvurem", "bvsdiv", "bvsrem":
		return BinBV(t.Op, a[0], a[1])
	case "bvult", "bvule", "bvslt", "bvsle":
		return CmpBV(t.Op, a[0], a[1])
	case "extract":
		return Extract(t.P1, t.P2, a[0])
	case "zext":
		return ZExt(t.Sort.W, a[0])
	case "sext":
		return SExt(t.Sort.W, a[0])
	case "concat":
		return Concat(a[0], a[1])
	case "bvnot":
		return BVNot(a[0])
	case "bvneg":
		return BVNeg(a[0])
	case "app":
		return mk("app", t.Sort, t.Name, 0, 0, 0, a...)
	case "select":
		return SelectT(a[0], a[1])
	case "forall":
		return mk("forall", BoolSort, t.Name, 0, t.P1, 0, a[0])
	}
	return mk(t.Op, t.Sort, t.Name, t.Val, t.P1, t.P2, a...)
}

// freeIndexVars: BV64 variables of the goal that came from stripped quantifiers (named k.*).
func skolemVars(t *Term, out map[string]*Term, seen map[int]bool) {
	if seen[t.id] {
		return
	}
	seen[t.id] = true
	if t.Op == "var" && t.Sort.Kind == KBV && len(t.Name) > 2 && t.Name[:2] == "k." {
		out[t.Name] = t
	}
	if t.Op == "forall" {
		// bound variable is not free
		inner := map[string]*Term{}
		skolemVars(t.Args[0], inner, seen)
		for n, v := range inner {
			if n != t.Name {
				out[n] = v
			}
		}
		return
	}
	for _, a := range t.Args {
		skolemVars(a, out, seen)
	}
}

// instantiate adds instances of the universally quantified hypotheses:
//  (1) at every skolem constant (variables named k.*) of the goal and the other hypotheses;
//  (2) by array triggers: for a select(A, f(k)) in the body with f(k) = k or X+k, and every ground select(A, t)
//      elsewhere, the instance k := t - X.
// Instances of valid hypotheses are valid, so this can only help the solver.
func instantiate(hyps []*Term, goal *Term) []*Term {
	cands := map[string]*Term{}
	skolemVars(goal, cands, map[int]bool{})
	for _, h := range hyps {
		if h.Op != "forall" {
			skolemVars(h, cands, map[int]bool{})
		}
	}
	// ground selects by array
	ground := map[int][]*Term{} // array term id -> index terms
	seenG := map[int]bool{}
	var collect func(t *Term, bound map[string]bool)
	collect = func(t *Term, bound map[string]bool) {
		if t.Op == "forall" {
			return // only ground context
		}
		if seenG[t.id] {
			return
		}
		seenG[t.id] = true
		if t.Op == "select" {
			ground[t.Args[0].id] = append(ground[t.Args[0].id], t.Args[1])
		}
		for _, a := range t.Args {
			collect(a, bound)
		}
	}
	collect(goal, nil)
	for _, h := range hyps {
		collect(h, nil)
	}
	out := append([]*Term{}, hyps...)
	added := map[int]bool{}
	for _, h := range hyps {
		if h.Op != "forall" {
			continue
		}
		inst := func(c *Term) {
			if c.Sort.W != h.P1 {
				return
			}
			t := substVar(h.Args[0], h.Name, c, map[int]*Term{})
			if !added[t.id] && !t.IsTrue() {
				added[t.id] = true
				out = append(out, t)
			}
		}
		for _, c := range cands {
			inst(c)
		}
		// array triggers
		n := 0
		memo := map[int]bool{}
		var trig func(t *Term)
		seenT := map[int]bool{}
		trig = func(t *Term) {
			if seenT[t.id] {
				return
			}
			seenT[t.id] = true
			if t.Op == "select" && containsVar(t.Args[1], h.Name, memo) && !containsVar(t.Args[0], h.Name, memo) {
				idx := t.Args[1]
				var x *Term // idx = x + k  (x may be nil for idx = k)
				ok := false
				switch {
				case idx.Op == "var" && idx.Name == h.Name:
					ok = true
				case idx.Op == "bvadd" && idx.Args[0].Op == "var" && idx.Args[0].Name == h.Name && !containsVar(idx.Args[1], h.Name, memo):
					x, ok = idx.Args[1], true
				case idx.Op == "bvadd" && idx.Args[1].Op == "var" && idx.Args[1].Name == h.Name && !containsVar(idx.Args[0], h.Name, memo):
					x, ok = idx.Args[0], true
				}
				if ok {
					for _, g := range ground[t.Args[0].id] {
						if n >= 40 {
							break
						}
						n++
						if x == nil {
							inst(g)
						} else {
							inst(Sub(g, x))
						}
					}
				}
			}
			for _, a := range t.Args {
				trig(a)
			}
		}
		trig(h.Args[0])
	}
	return out
}

// congruence adds, for every pair of applications of a window function (crc_fold, sha_absorbN, uf* with a
// byte-slice argument) on different arrays, the skolemised instance of
//   (forall k. 0<=k<n ==> A[oa+k] == B[ob+k]) /\ other args equal  ==>  f(..A,oa,n..) == f(..B,ob,n..)
// This is the defining property of these functions (they depend only on the bytes of the window).
func congruence(hyps []*Term, goal *Term) []*Term {
	apps := map[string][]*Term{}
	seen := map[int]bool{}
	var visit func(t *Term)
	visit = func(t *Term) {
		if seen[t.id] {
			return
		}
		seen[t.id] = true
		if t.Op == "app" {
			if _, ok := arrUF[t.Name]; ok {
				apps[t.Name] = append(apps[t.Name], t)
			}
		}
		for _, a := range t.Args {
			visit(a)
		}
	}
	for _, h := range hyps {
		visit(h)
	}
	visit(goal)
	var out []*Term
	n := 0
	for name, as := range apps {
		ai := arrUF[name]
		for i := 0; i < len(as); i++ {
			for j := i + 1; j < len(as); j++ {
				a, b := as[i], as[j]
				if a.Args[ai] == b.Args[ai] && a.Args[ai+1] == b.Args[ai+1] {
					continue // same window: plain congruence, the solver knows
				}
				if n >= 120 {
					continue
				}
				n++
				k := Var(fmt.Sprintf("k.cong!%d", n), BV(64))
				var pre []*Term
				for x := range a.Args {
					if x == ai || x == ai+1 {
						continue
					}
					pre = append(pre, Eq(a.Args[x], b.Args[x]))
				}
				diff := And(CmpBV("bvsle", Const(64, 0), k), CmpBV("bvslt", k, a.Args[ai+2]),
					Ne(SelectT(a.Args[ai], Add(a.Args[ai+1], k)), SelectT(b.Args[ai], Add(b.Args[ai+1], k))))
				out = append(out, Or(Not(And(pre...)), diff, Eq(a, b)))
			}
		}
	}
	return out
}

// unitPropagate simplifies hypotheses with the literals among them: disjuncts whose negation is asserted are
// dropped, conjunctions are flattened, until nothing changes.  Purely propositional and equivalence preserving
// for the conjunction of the hypotheses.
func unitPropagate(hyps []*Term) []*Term {
	cur := append([]*Term{}, hyps...)
	for round := 0; round < 8; round++ {
		lits := map[int]bool{} // term id asserted true
		var flat []*Term
		var add func(t *Term)
		add = func(t *Term) {
			if t.Op == "and" {
				for _, a := range t.Args {
					add(a)
				}
				return
			}
			if !lits[t.id] {
				lits[t.id] = true
				flat = append(flat, t)
			}
		}
		for _, h := range cur {
			add(h)
		}
		changed := false
		var next []*Term
		for _, h := range flat {
			if h.Op == "not" && h.Args[0].Op == "and" {
				// not(a /\ b) is the clause (not a \/ not b)
				var ds []*Term
				for _, a := range h.Args[0].Args {
					ds = append(ds, Not(a))
				}
				h = mk("or", BoolSort, "", 0, 0, 0, ds...)
			}
			if h.Op != "or" {
				next = append(next, h)
				continue
			}
			var keep []*Term
			sat := false
			for _, d0 := range h.Args {
				d := simpUnder(d0, lits, 3)
				if d != d0 {
					changed = true
				}
				if d.IsFalse() || lits[Not(d).id] {
					changed = true
					continue
				}
				if d.IsTrue() || lits[d.id] {
					sat = true
				}
				keep = append(keep, d)
			}
			if sat {
				changed = true
				continue
			}
			n := Or(keep...)
			if n != h {
				changed = true
			}
			next = append(next, n)
		}
		cur = next
		if !changed {
			break
		}
	}
	return cur
}

// arithLemmas adds instances of valid bit-vector facts about signed division/remainder by positive
// constants, which bit-blasting solvers rarely find by themselves:
//   a == (a/c)*c + a%c,  -c < a%c < c,  a>=0 => a%c>=0,  a<=0 => a%c<=0,  (x*c)/c == x when |x| < 2^62/c.
// Each instance schema is re-checked in isolation by the thorough tier (lemma:arith-*).
func arithLemmas(hyps []*Term, goal *Term) []*Term {
	seen := map[int]bool{}
	var out []*Term
	done := map[string]bool{}
	var visit func(t *Term)
	visit = func(t *Term) {
		if seen[t.id] {
			return
		}
		seen[t.id] = true
		for _, a := range t.Args {
			visit(a)
		}
		if (t.Op == "bvsdiv" || t.Op == "bvsrem") && t.Args[1].IsConst() && t.Sort.W == 64 {
			c := t.Args[1]
			cv := int64(c.Val)
			if cv <= 1 {
				return
			}
			a := t.Args[0]
			key := fmt.Sprintf("%d/%d", a.id, cv)
			if done[key] {
				return
			}
			done[key] = true
			q := BinBV("bvsdiv", a, c)
			r := BinBV("bvsrem", a, c)
			zero := Const(64, 0)
			out = append(out, Eq(a, Add(BinBV("bvmul", q, c), r)))
			out = append(out, And(CmpBV("bvslt", BVNeg(c), r), CmpBV("bvslt", r, c)))
			out = append(out, Implies(CmpBV("bvsle", zero, a), CmpBV("bvsle", zero, r)))
			out = append(out, Implies(CmpBV("bvsle", a, zero), CmpBV("bvsle", r, zero)))
			// (x*c + K)/c == x + K/c  when c | K and nothing overflows
			if a.Op == "bvadd" && a.Args[1].IsConst() && a.Args[0].Op == "bvmul" && a.Args[0].Args[1] == c {
				kv := int64(a.Args[1].Val)
				if kv%cv == 0 {
					x := a.Args[0].Args[0]
					lim := Const(64, uint64((int64(1)<<61)/cv))
					out = append(out, Implies(And(CmpBV("bvslt", BVNeg(lim), x), CmpBV("bvslt", x, lim)), Eq(q, Add(x, Const(64, uint64(kv/cv))))))
				}
			}
			if a.Op == "bvmul" && a.Args[1] == c {
				x := a.Args[0]
				lim := Const(64, uint64((int64(1)<<62)/cv))
				out = append(out, Implies(And(CmpBV("bvslt", BVNeg(lim), x), CmpBV("bvslt", x, lim)), Eq(q, x)))
			}
		}
	}
	for _, h := range hyps {
		visit(h)
	}
	visit(goal)
	return out
}

// simpUnder simplifies the propositional structure of t under the asserted literals (depth bounded).
func simpUnder(t *Term, lits map[int]bool, depth int) *Term {
	if lits[t.id] {
		return True
	}
	if lits[Not(t).id] {
		return False
	}
	if depth == 0 {
		return t
	}
	switch t.Op {
	case "and":
		var as []*Term
		for _, a := range t.Args {
			as = append(as, simpUnder(a, lits, depth-1))
		}
		return And(as...)
	case "or":
		var as []*Term
		for _, a := range t.Args {
			as = append(as, simpUnder(a, lits, depth-1))
		}
		return Or(as...)
	case "not":
		return Not(simpUnder(t.Args[0], lits, depth-1))
	}
	return t
}
