package main

import (
	"fmt"
	"go/constant"
)

func constantInt64(v constant.Value) (int64, bool) {
	return constant.Int64Val(constant.ToInt(v))
}

func fmtDate(v [7]int64) string {
	return fmt.Sprintf("%04d-%02d-%02dT%02d:%02d:%02dZ", v[0], v[1], v[2], v[3], v[4], v[5])
}
