package main

import (
	"fmt"
	"path/filepath"
	"go/constant"
	"go/token"
	"go/types"
	"strings"

	"golang.org/x/tools/go/ssa"
)

type Frame struct {
	fn     *ssa.Function
	env    map[ssa.Value]Value
	params []Value
	st     *State
	fc     *FuncContract // contract of fn when fn is the function under verification or inlined with loops
	loops  map[*ssa.BasicBlock]*loopRT
	visits map[*ssa.BasicBlock]int
	lastDpos, symIters map[*ssa.BasicBlock]int // unrolled loops: decisions made between two visits of a header
	defers []func()
	isRoot bool
	oldEnv map[ssa.Value]Value
	where  string
	free   []Value
	listItem *ListItem
	mergedPhis map[*ssa.Phi]Value
}

type loopRT struct {
	ord     int
	lc      *LoopContract
	entered bool
	dec0    *Term
	sliceObj map[*ssa.Phi]*Obj
	logBase  int
	headSnap *Snapshot
	regs     []*Region // the declared regions of the loop, as evaluated at the header
}

func (fr *Frame) loc(instr ssa.Instruction) string {
	b := instr.Block()
	idx := 0
	for i, in := range b.Instrs {
		if in == instr {
			idx = i
			break
		}
	}
	if fr.isRoot {
		return fmt.Sprintf("b%d.%d", b.Index, idx)
	}
	return fmt.Sprintf("%s:b%d.%d", shortFn(fr.fn), b.Index, idx)
}

// fnAlias: function literals under a contract whose ordinal moved are known by the name of their contract; another
// literal that now carries that ordinal gets a mark so that the two are never confused.
var fnAlias = map[*ssa.Function]string{}
var aliasTaken = map[string]bool{}

func shortFn(fn *ssa.Function) string {
	if a, ok := fnAlias[fn]; ok {
		return a
	}
	s := fn.String()
	s = strings.ReplaceAll(s, "github.com/bluenviron/gomavlib/v3/pkg/", "")
	s = strings.ReplaceAll(s, "github.com/bluenviron/gomavlib/v3", "gomavlib")
	if aliasTaken[s] {
		s += "~moved"
	}
	return s
}

func (fr *Frame) constValue(c *ssa.Const) Value {
	s := fr.st
	t := c.Type()
	if c.Value == nil {
		return s.zeroValue(t)
	}
	if so, ok := sortOf(t); ok {
		if so.Kind == KBool {
			return BoolConst(constant.BoolVal(c.Value))
		}
		if isFloat(t) {
			f, _ := constant.Float64Val(c.Value)
			// opaque bit pattern: name by value
			return App(fmt.Sprintf("fconst_%d_%x", so.W, uint64FromFloat(f, so.W)), so)
		}
		v := constant.ToInt(c.Value)
		if u, ok := constant.Uint64Val(v); ok {
			return Const(so.W, u)
		}
		if i, ok := constant.Int64Val(v); ok {
			return Const(so.W, uint64(i))
		}
		unsup("constant %s", c)
	}
	if b, ok := t.Underlying().(*types.Basic); ok && b.Info()&types.IsString != 0 {
		str := constant.StringVal(c.Value)
		return &StringV{Arr: &ArrBytes{B: []byte(str)}, Len: Const(64, uint64(len(str))), Lit: &str}
	}
	unsup("constant of type %s", t)
	return nil
}

func (fr *Frame) get(v ssa.Value) Value {
	switch c := v.(type) {
	case *ssa.Const:
		return fr.constValue(c)
	case *ssa.Global:
		return fr.st.globalPtr(c)
	case *ssa.Function:
		return &FuncV{Fn: c}
	case *ssa.Builtin:
		return c
	}
	if x, ok := fr.env[v]; ok {
		return x
	}
	unsup("value %s (%T) not evaluated in %s", v.Name(), v, fr.fn.Name())
	return nil
}

func (s *State) globalPtr(g *ssa.Global) Value {
	if o, ok := s.globals[g]; ok {
		return &PtrV{Nil: False, Obj: o, Elem: o.Type}
	}
	et := g.Type().(*types.Pointer).Elem()
	var contents Value
	if v := s.eng.globalInit(s, g); v != nil {
		contents = v
	} else {
		contents = s.symValue(et, "global."+g.Name())
	}
	o := s.newObj(et, contents, "global."+g.Name(), false)
	s.globals[g] = o
	return &PtrV{Nil: False, Obj: o, Elem: et}
}

func asTerm(v Value) *Term {
	t, ok := v.(*Term)
	if !ok {
		unsup("expected scalar, got %T", v)
	}
	return t
}

// toIndex converts an integer value of Go type t to a 64-bit index term.
func toIndex(v Value, t types.Type) *Term {
	x := asTerm(v)
	if x.Sort.W == 64 {
		return x
	}
	if isSigned(t) {
		return SExt(64, x)
	}
	return ZExt(64, x)
}

// run executes fn on args along the current path and returns its results.
func (s *State) run(fn *ssa.Function, args []Value, isRoot bool, fc *FuncContract, free ...Value) []Value {
	if fn.Blocks == nil {
		unsup("function %s has no body", fn)
	}
	s.depth++
	if s.depth > 40 {
		unsup("call depth exceeded at %s", fn)
	}
	defer func() { s.depth-- }()
	fr := &Frame{fn: fn, env: map[ssa.Value]Value{}, st: s, fc: fc, isRoot: isRoot, loops: map[*ssa.BasicBlock]*loopRT{}, visits: map[*ssa.BasicBlock]int{}, params: args}
	for i, p := range fn.Params {
		fr.env[p] = args[i]
	}
	fr.free = free
	if isRoot && s.rootAllArgs != nil {
		// a closure under contract: clause functions take (captured values..., parameters...)
		fr.params = s.rootAllArgs
	}
	for i, fv := range fn.FreeVars {
		fr.env[fv] = free[i]
	}
	if fc != nil && len(fc.Loops) > 0 {
		heads := loopHeaders(fn)
		for ord, h := range heads {
			if lc, ok := fc.Loops[ord]; ok && !lc.Unroll {
				fr.loops[h] = &loopRT{ord: ord, lc: lc, sliceObj: map[*ssa.Phi]*Obj{}}
			}
		}
		for ord := range fc.Loops {
			if ord >= len(heads) {
				s.oblige("bind", fmt.Sprintf("bind:loop%d", ord), False)
			}
		}
	}
	var prev *ssa.BasicBlock
	b := fn.Blocks[0]
	for {
		fr.visits[b]++
		if fr.visits[b] > 80 {
			unsup("loop at block %d of %s needs an invariant (iteration cap reached)", b.Index, fn)
		}
		if fr.loops[b] == nil && fr.visits[b] > 1 {
			// a loop without a contract is unrolled; that ends only when the iteration count is decided by constants.
			// Iterations whose continuation was a symbolic decision are counted separately and capped low: unrolling
			// them further only multiplies paths and obligations of a proof that is lost anyway.
			if fr.lastDpos == nil {
				fr.lastDpos, fr.symIters = map[*ssa.BasicBlock]int{}, map[*ssa.BasicBlock]int{}
			}
			if d, ok := fr.lastDpos[b]; ok && s.dpos > d {
				fr.symIters[b]++
				if s.eng.boundK > 0 && fr.symIters[b] > s.eng.boundK {
					// bounded stand-in: executions with more iterations than the bound are not explored
					panic(pathEnd{"bound"})
				}
				if fr.symIters[b] > symbolicUnrollCap {
					unsup("loop at block %d of %s needs an invariant (iteration cap reached)", b.Index, fn)
				}
			}
			fr.lastDpos[b] = s.dpos
		} else if fr.loops[b] == nil {
			if fr.lastDpos == nil {
				fr.lastDpos, fr.symIters = map[*ssa.BasicBlock]int{}, map[*ssa.BasicBlock]int{}
			}
			fr.lastDpos[b] = s.dpos
		}
		if lrt := fr.loops[b]; lrt != nil {
			fr.loopHeader(b, prev, lrt)
		} else if fr.mergedPhis != nil {
			for phi, v := range fr.mergedPhis {
				fr.env[phi] = v
			}
			fr.mergedPhis = nil
		} else {
			if b.Comment == "rangeindex.loop" && fr.visits[b] == 1 {
				if done, ret := fr.rangeOverList(b, prev); ret != nil {
					return ret.vals
				} else if done != nil {
					prev, b = b, done
					continue
				}
			}
			for _, in := range b.Instrs {
				if phi, ok := in.(*ssa.Phi); ok {
					fr.env[phi] = fr.phiValue(phi, b, prev)
				}
			}
		}
		var next *ssa.BasicBlock
		for _, in := range b.Instrs {
			if _, ok := in.(*ssa.Phi); ok {
				continue
			}
			s.steps++
			if s.steps > 400000 {
				unsup("step budget exceeded in %s", fn)
			}
			switch x := in.(type) {
			case *ssa.If:
				c := asTerm(fr.get(x.Cond))
				switch {
				case c.IsTrue():
					next = b.Succs[0]
				case c.IsFalse():
					next = b.Succs[1]
				default:
					if join, merged := fr.tryTriangle(b, c); join != nil {
						fr.mergedPhis = merged
						if len(merged) == 0 {
							fr.mergedPhis = map[*ssa.Phi]Value{}
						}
						next = join
						break
					}
					if s.decide(2, "if") == 0 {
						s.assume(c)
						next = b.Succs[0]
					} else {
						s.assume(Not(c))
						next = b.Succs[1]
					}
				}
			case *ssa.Jump:
				next = b.Succs[0]
			case *ssa.Return:
				var res []Value
				for _, r := range x.Results {
					res = append(res, fr.get(r))
				}
				return res
			case *ssa.Panic:
				s.check("safety:panic@"+fr.loc(in), False)
				panic(pathEnd{"panic"})
			default:
				fr.exec(in)
			}
		}
		if next == nil {
			unsup("block %d of %s has no terminator", b.Index, fn)
		}
		prev, b = b, next
	}
}

func (fr *Frame) phiValue(phi *ssa.Phi, b, prev *ssa.BasicBlock) Value {
	for i, p := range b.Preds {
		if p == prev {
			return fr.get(phi.Edges[i])
		}
	}
	unsup("phi without matching predecessor")
	return nil
}

// loopHeaders returns loop header blocks ordered by block index.
func loopHeaders(fn *ssa.Function) []*ssa.BasicBlock {
	var hs []*ssa.BasicBlock
	for _, b := range fn.Blocks {
		for _, p := range b.Preds {
			if b.Dominates(p) {
				hs = append(hs, b)
				break
			}
		}
	}
	return hs
}

// symbolicUnrollCap bounds the unrolled iterations of a contract-less loop during which a symbolic decision was made.
const symbolicUnrollCap = 10

func (fr *Frame) bindValues(lc *LoopContract, b *ssa.BasicBlock) []Value {
	var out []Value
	for _, bd := range lc.Binds {
		var found ssa.Value
		for _, in := range b.Instrs {
			if phi, ok := in.(*ssa.Phi); ok {
				if phi.Comment == bd.SSAName || phi.Name() == bd.SSAName {
					found = phi
				}
			}
		}
		if found == nil {
			// any value in the function with that name
			for _, bb := range fr.fn.Blocks {
				for _, in := range bb.Instrs {
					if v, ok := in.(ssa.Value); ok && v.Name() == bd.SSAName {
						found = v
					}
				}
			}
		}
		if found == nil {
			for _, p := range fr.fn.Params {
				if p.Name() == bd.SSAName {
					found = p
				}
			}
		}
		if found == nil {
			// the local was renamed: fall back to the loop variables (header phis) of the declared type that no
			// bind names, taken in order (the k-th unresolved bind of a type gets the k-th unnamed phi of that type).
			// A wrong guess cannot prove anything false: the invariants are still checked against the code.
			found = fr.bindByType(lc, b, bd)
		}
		if found == nil {
			// a counting loop rewritten as a range loop or the reverse: at the loop header the counter of
			// `for i := 0; i < n; i++` is the range index plus one (go/ssa starts the range index at -1 and increments it
			// before the test).  As above, a wrong guess proves nothing false.
			if v := fr.bindAcrossLoopForms(lc, b, bd); v != nil {
				out = append(out, v)
				continue
			}
		}
		if found == nil {
			fr.st.oblige("bind", fmt.Sprintf("bind:loop%d:%s", lc.Ord, bd.Name), False)
			unsup("loop bind %s not found", bd.SSAName)
		}
		out = append(out, fr.get(found))
	}
	return out
}

func (fr *Frame) bindAcrossLoopForms(lc *LoopContract, b *ssa.BasicBlock, want LoopBind) Value {
	if want.Type != "int" {
		return nil
	}
	if want.SSAName != "rangeindex" {
		for _, in := range b.Instrs {
			if phi, ok := in.(*ssa.Phi); ok && phi.Comment == "rangeindex" {
				if t, ok := fr.get(phi).(*Term); ok {
					return Add(t, Const(64, 1))
				}
			}
		}
		return nil
	}
	named := map[string]bool{}
	for _, bd := range lc.Binds {
		named[bd.SSAName] = true
	}
	for _, in := range b.Instrs {
		phi, ok := in.(*ssa.Phi)
		if !ok || named[phi.Comment] {
			continue
		}
		if bt, ok := phi.Type().Underlying().(*types.Basic); ok && bt.Kind() == types.Int {
			if t, ok := fr.get(phi).(*Term); ok {
				return Sub(t, Const(64, 1))
			}
		}
	}
	return nil
}

func (fr *Frame) bindByType(lc *LoopContract, b *ssa.BasicBlock, want LoopBind) ssa.Value {
	named := map[string]bool{}
	for _, bd := range lc.Binds {
		named[bd.SSAName] = true
	}
	typeOf := func(t types.Type) string {
		return types.TypeString(t, func(p *types.Package) string { return p.Name() })
	}
	matches := func(phi *ssa.Phi, ty string) bool {
		ts := typeOf(phi.Type())
		return ts == ty || strings.TrimPrefix(ts, fr.fn.Pkg.Pkg.Name()+".") == ty
	}
	// unresolved binds of this type, in contract order
	k := -1
	n := 0
	for _, bd := range lc.Binds {
		resolved := false
		for _, in := range b.Instrs {
			if phi, ok := in.(*ssa.Phi); ok && (phi.Comment == bd.SSAName || phi.Name() == bd.SSAName) {
				resolved = true
			}
		}
		if resolved || bd.SSAName == "rangeindex" || bd.Type != want.Type {
			continue
		}
		if bd.Name == want.Name {
			k = n
		}
		n++
	}
	if k < 0 {
		return nil
	}
	i := 0
	for _, in := range b.Instrs {
		phi, ok := in.(*ssa.Phi)
		if !ok || named[phi.Comment] || phi.Comment == "rangeindex" || !matches(phi, want.Type) {
			continue
		}
		if i == k {
			return phi
		}
		i++
	}
	return nil
}

func (fr *Frame) loopHeader(b, prev *ssa.BasicBlock, lrt *loopRT) {
	s := fr.st
	lc := lrt.lc
	// evaluate phis from the incoming edge
	newPhi := map[*ssa.Phi]Value{}
	for _, in := range b.Instrs {
		if phi, ok := in.(*ssa.Phi); ok {
			// a merged `if` whose join is this very header (the last statement of a range-loop body): the merged values
			// are the incoming ones; taking the edge of the `if` block alone would drop the executions of its branch
			if v, ok := fr.mergedPhis[phi]; ok {
				newPhi[phi] = v
				continue
			}
			newPhi[phi] = fr.phiValue(phi, b, prev)
		}
	}
	fr.mergedPhis = nil
	for phi, v := range newPhi {
		fr.env[phi] = v
	}
	args := func() []Value {
		a := append([]Value{}, fr.params...)
		return append(a, fr.bindValues(lc, b)...)
	}
	if !lrt.entered {
		lrt.entered = true
		for i, c := range lc.Invariants {
			g := s.evalClause(c, args(), s.entry)
			s.oblige("loop", fmt.Sprintf("loop%d:init:%d", lrt.ord, i), g)
		}
		// havoc: header phis and declared heap regions
		for _, in := range b.Instrs {
			if phi, ok := in.(*ssa.Phi); ok {
				if sl, ok := fr.env[phi].(*SliceV); ok && sl.object() != nil {
					// a slice loop variable stays a view of the same backing array (checked at the back edge);
					// its window is arbitrary
					o := sl.object()
					nm := "loop." + phiName(phi)
					off, l, c := s.freshVar(nm+".off", BV(64)), s.freshVar(nm+".len", BV(64)), s.freshVar(nm+".cap", BV(64))
					s.lenAssume(off)
					s.lenAssume(l)
					s.lenAssume(c)
					s.assume(CmpBV("bvsle", l, c))
					s.assume(CmpBV("bvsle", Add(off, c), s.arrayOf(o).N))
					fr.env[phi] = &SliceV{Obj: o, Off: off, Len: l, Cap: c, Elem: sl.Elem}
					lrt.sliceObj[phi] = o
					continue
				}
				fr.env[phi] = s.symValue(phi.Type(), "loop."+phiName(phi))
			}
		}
		if lc.ModifiesFresh {
			for id, cur := range s.heap {
				o := s.objIndex[id]
				if o == nil || !o.Fresh || o.Ghost != "" {
					continue
				}
				if av, ok := cur.(*ArrayV); ok && av.Arr != nil {
					s.heap[id] = &ArrayV{Arr: &ArrVar{Name: s.freshName("loop.fresh"), W: av.Arr.ElemW()}, N: av.N, Elem: av.Elem}
				}
			}
		}
		for _, m := range lc.Modifies {
			for _, r := range s.evalModifies(m, args()) {
				s.havocRegion(r, "loop")
				if r != nil {
					lrt.regs = append(lrt.regs, r)
				}
			}
		}
		for _, c := range lc.Invariants {
			s.assume(s.evalClause(c, args(), s.entry))
		}
		if lc.Decreases != nil {
			lrt.dec0 = asTerm(s.evalClauseValue(lc.Decreases, args(), s.entry))
		}
		lrt.logBase = len(s.log)
		// position of the LAST cut loop entered: a count over a range that starts before it would span hidden iterations
		s.cutLoopAt = len(s.log)
		lrt.headSnap = s.snapshot()
		return
	}
	// back edge
	for phi, o := range lrt.sliceObj {
		if sl, ok := newPhi[phi].(*SliceV); !ok || sl.object() != o {
			unsup("slice loop variable %s changes its backing array inside the loop", phiName(phi))
		}
	}
	for i, c := range lc.Invariants {
		g := s.evalClause(c, args(), s.entry)
		s.oblige("loop", fmt.Sprintf("loop%d:preserve:%d", lrt.ord, i), g)
	}
	// frame of the loop: what one iteration changed in memory that existed at the header lies in the declared regions
	// (those are what the cut havocked; anything else keeps its value from before the loop on the exit path)
	s.loopFrameObligations(lrt)
	for i, c := range lc.BodyEnsures {
		s.callerLogBase = append(s.callerLogBase, lrt.logBase)
		g := s.evalClause(c, args(), lrt.headSnap)
		s.callerLogBase = s.callerLogBase[:len(s.callerLogBase)-1]
		s.obligeSplit("loop", fmt.Sprintf("loop%d:body:%s", lrt.ord, clauseLabel(c, i)), g)
	}
	if lc.Decreases != nil {
		d := asTerm(s.evalClauseValue(lc.Decreases, args(), s.entry))
		s.oblige("loop", fmt.Sprintf("loop%d:decreases", lrt.ord), And(CmpBV("bvslt", d, lrt.dec0), CmpBV("bvsle", Const(64, 0), lrt.dec0)))
	}
	panic(pathEnd{"loop back edge"})
}

func phiName(p *ssa.Phi) string {
	if p.Comment != "" {
		return p.Comment
	}
	return p.Name()
}

func uint64FromFloat(f float64, w int) uint64 {
	if w == 32 {
		return uint64(float32bits(float32(f)))
	}
	return float64bits(f)
}

// exec executes one non-control instruction.
func (fr *Frame) exec(in ssa.Instruction) {
	s := fr.st
	defer func() {
		if r := recover(); r != nil {
			if u, ok := r.(unsupported); ok && !strings.Contains(u.msg, " [at ") {
				pos := s.eng.prog.Fset.Position(in.Pos())
				panic(unsupported{fmt.Sprintf("%s [at %s: %s, %s:%d]", u.msg, shortFn(fr.fn), in.String(), filepath.Base(pos.Filename), pos.Line)})
			}
			panic(r)
		}
	}()
	switch x := in.(type) {
	case *ssa.DebugRef:
	case *ssa.Alloc:
		et := x.Type().(*types.Pointer).Elem()
		o := s.newObj(et, s.zeroValue(et), x.Comment, true)
		fr.env[x] = &PtrV{Nil: False, Obj: o, Elem: et}
	case *ssa.FieldAddr:
		p := fr.get(x.X).(*PtrV)
		s.check("safety:nil@"+fr.loc(in), Not(p.Nil))
		st := p.Elem.Underlying().(*types.Struct)
		np := &PtrV{Nil: False, Obj: p.object(), Path: append(append([]Sel{}, p.Path...), Sel{Field: x.Field}), Elem: st.Field(x.Field).Type()}
		if np.Obj == nil {
			if s.pure > 0 {
				np.Nil = True
			} else {
				panic(pathEnd{"nil dereference"})
			}
		}
		fr.env[x] = np
	case *ssa.Field:
		sv, ok := fr.get(x.X).(*StructV)
		if !ok {
			unsup("field of %T", fr.get(x.X))
		}
		fr.env[x] = sv.Fields[x.Field]
	case *ssa.IndexAddr:
		fr.env[x] = fr.indexAddr(x)
	case *ssa.Index:
		fr.env[x] = fr.index(x)
	case *ssa.UnOp:
		fr.env[x] = fr.unop(x)
	case *ssa.BinOp:
		fr.env[x] = s.binop(x.Op, fr.get(x.X), fr.get(x.Y), x.X.Type(), x.Y.Type(), fr.loc(in))
	case *ssa.Store:
		p, ok := fr.get(x.Addr).(*PtrV)
		if !ok {
			unsup("store through %T", fr.get(x.Addr))
		}
		if s.storeGuard != nil {
			s.store(p, s.iteValue(s.storeGuard, fr.get(x.Val), s.load(p, fr.loc(in))), fr.loc(in))
			break
		}
		s.store(p, fr.get(x.Val), fr.loc(in))
	case *ssa.Convert:
		fr.env[x] = s.convert(fr.get(x.X), x.X.Type(), x.Type(), fr.loc(in))
	case *ssa.ChangeType:
		v := fr.get(x.X)
		if sv, ok := v.(*StructV); ok {
			v = &StructV{Type: x.Type(), Fields: sv.Fields}
		}
		fr.env[x] = v
	case *ssa.ChangeInterface:
		fr.env[x] = fr.get(x.X)
	case *ssa.MakeInterface:
		v := fr.get(x.X)
		tid := typeID(x.X.Type())
		h := Const(64, 0)
		if p, ok := v.(*PtrV); ok && p.Obj != nil {
			h = Const(64, uint64(p.Obj.ID))
		}
		fr.env[x] = &IfaceV{Type: Const(32, uint64(tid)), Handle: h, Static: x.Type(), alts: map[int]Value{tid: v}}
	case *ssa.TypeAssert:
		fr.env[x] = fr.typeAssert(x)
	case *ssa.Extract:
		fr.env[x] = fr.get(x.Tuple).(*TupleV).Vals[x.Index]
	case *ssa.Slice:
		fr.env[x] = fr.sliceOp(x)
	case *ssa.SliceToArrayPointer:
		// only the conversion to an array VALUE, `[N]T(s)`, which go/ssa spells as this instruction followed at once by
		// a load: the load sees a copy of the N elements taken now.  A kept pointer would alias the slice: unsupported.
		at := x.Type().(*types.Pointer).Elem().Underlying().(*types.Array)
		ok := x.Referrers() != nil && len(*x.Referrers()) > 0
		if ok {
			for _, r := range *x.Referrers() {
				u, isLoad := r.(*ssa.UnOp)
				if !isLoad || u.Op != token.MUL || u.Block() != x.Block() {
					ok = false
					continue
				}
				for k, bi := range x.Block().Instrs {
					if bi == ssa.Instruction(x) && (k+1 >= len(x.Block().Instrs) || x.Block().Instrs[k+1] != ssa.Instruction(u)) {
						ok = false
					}
				}
			}
		}
		sl, isSl := fr.get(x.X).(*SliceV)
		so, scalar := sortOf(at.Elem())
		if !ok || !isSl || !scalar || so.Kind != KBV {
			unsup("slice to array pointer that is kept (only [N]T(s) of scalars is modelled)")
		}
		n := Const(64, uint64(at.Len()))
		s.check("safety:slice2array@"+fr.loc(in), CmpBV("bvsle", n, sl.Len))
		var src Arr = &ArrZero{W: so.W}
		off := Const(64, 0)
		if sl.object() != nil {
			src, off = s.sliceArr(sl), sl.Off
		}
		contents := &ArrayV{Arr: &ArrCopy{Base: &ArrZero{W: so.W}, DstOff: Const(64, 0), Src: src, SrcOff: off, N: n}, N: n, Elem: at.Elem()}
		o := s.newObj(at, contents, "slice2array", true)
		o.ReadOnly = true
		fr.env[x] = &PtrV{Nil: False, Obj: o, Elem: x.Type().(*types.Pointer).Elem()}
	case *ssa.MakeSlice:
		et := x.Type().Underlying().(*types.Slice).Elem()
		l := toIndex(fr.get(x.Len), x.Len.Type())
		c := toIndex(fr.get(x.Cap), x.Cap.Type())
		s.check("safety:makeslice@"+fr.loc(in), And(CmpBV("bvsle", Const(64, 0), l), CmpBV("bvsle", l, c), CmpBV("bvslt", c, Const(64, maxLen))))
		var contents Value
		if so, ok := sortOf(et); ok && so.Kind == KBV {
			contents = &ArrayV{Arr: &ArrZero{W: so.W}, N: c, Elem: et}
		} else {
			contents = &ArrayV{N: c, Elem: et}
		}
		o := s.newObj(types.NewArray(et, 0), contents, "make", true)
		fr.env[x] = &SliceV{Obj: o, Off: Const(64, 0), Len: l, Cap: c, Elem: et}
	case *ssa.MakeClosure:
		cv := &ClosureV{Fn: x.Fn.(*ssa.Function)}
		for _, b := range x.Bindings {
			cv.Bindings = append(cv.Bindings, fr.get(b))
		}
		fr.env[x] = cv
	case *ssa.MakeMap:
		o := s.newObj(x.Type(), &MapContents{KeyT: x.Type().Underlying().(*types.Map).Key(), ElemT: x.Type().Underlying().(*types.Map).Elem()}, "makemap", true)
		fr.env[x] = &MapV{Nil: False, Obj: o}
	case *ssa.MapUpdate:
		fr.mapUpdate(x)
	case *ssa.Lookup:
		fr.env[x] = fr.lookup(x)
	case *ssa.Call:
		res := fr.call(x, &x.Call)
		switch len(res) {
		case 0:
			fr.env[x] = &TupleV{}
		case 1:
			fr.env[x] = res[0]
		default:
			fr.env[x] = &TupleV{Vals: res}
		}
	case *ssa.Defer:
		call := x.Call
		var args []Value
		for _, a := range call.Args {
			args = append(args, fr.get(a))
		}
		var recv Value
		if call.IsInvoke() {
			recv = fr.get(call.Value)
		} else if _, ok := call.Value.(*ssa.Function); !ok {
			if _, ok := call.Value.(*ssa.Builtin); !ok {
				recv = fr.get(call.Value)
			}
		}
		cc := call
		fr.defers = append(fr.defers, func() { fr.callWith(in, &cc, recv, args) })
	case *ssa.RunDefers:
		for i := len(fr.defers) - 1; i >= 0; i-- {
			fr.defers[i]()
		}
		fr.defers = nil
	case *ssa.Go:
		fr.goStmt(x)
	case *ssa.Send:
		fr.send(x)
	case *ssa.Select:
		fr.env[x] = fr.selectStmt(x)
	case *ssa.MakeChan:
		o := s.newObj(x.Type(), &OpaqueV{Kind: "chan", T: toIndex(fr.get(x.Size), x.Size.Type())}, "makechan", true)
		fr.env[x] = &ChanV{Nil: False, Obj: o}
	case *ssa.Range:
		fr.env[x] = fr.rangeStart(x)
	case *ssa.Next:
		fr.env[x] = fr.rangeNext(x)
	default:
		unsup("instruction %T (%s) in %s", in, in, fr.fn)
	}
}

func (fr *Frame) indexAddr(x *ssa.IndexAddr) Value {
	s := fr.st
	idx := toIndex(fr.get(x.Index), x.Index.Type())
	switch b := fr.get(x.X).(type) {
	case *ListV:
		var v Value
		if fr.listItem != nil {
			v = fr.listItem.Val
		} else if idx.IsConst() && int(idx.Val) < len(b.Items) && b.Items[idx.Val].Guard.IsTrue() {
			v = b.Items[idx.Val].Val
		} else {
			unsup("indexing a list with conditional elements")
		}
		o := s.newObj(b.Elem, v, "listitem", true)
		return &PtrV{Nil: False, Obj: o, Elem: b.Elem}
	case *SliceV:
		s.check("safety:index@"+fr.loc(x), And(CmpBV("bvsle", Const(64, 0), idx), CmpBV("bvslt", idx, b.Len)))
		o := b.object()
		if o == nil {
			if s.pure > 0 {
				return &PtrV{Nil: True, Elem: b.Elem}
			}
			panic(pathEnd{"index of nil slice"})
		}
		return &PtrV{Nil: False, Obj: o, Path: []Sel{{Field: -1, Index: Add(b.Off, idx)}}, Elem: b.Elem}
	case *PtrV:
		at := b.Elem.Underlying().(*types.Array)
		s.check("safety:nil@"+fr.loc(x), Not(b.Nil))
		s.check("safety:index@"+fr.loc(x), And(CmpBV("bvsle", Const(64, 0), idx), CmpBV("bvslt", idx, Const(64, uint64(at.Len())))))
		o := b.object()
		if o == nil {
			if s.pure > 0 {
				return &PtrV{Nil: True, Elem: at.Elem()}
			}
			panic(pathEnd{"nil dereference"})
		}
		return &PtrV{Nil: False, Obj: o, Path: append(append([]Sel{}, b.Path...), Sel{Field: -1, Index: idx}), Elem: at.Elem()}
	}
	unsup("indexaddr on %T", fr.get(x.X))
	return nil
}

func (fr *Frame) index(x *ssa.Index) Value {
	s := fr.st
	idx := toIndex(fr.get(x.Index), x.Index.Type())
	switch b := fr.get(x.X).(type) {
	case *ArrayV:
		s.check("safety:index@"+fr.loc(x), And(CmpBV("bvsle", Const(64, 0), idx), CmpBV("bvslt", idx, b.N)))
		return s.navigate(b, []Sel{{Field: -1, Index: idx}})
	case *StringV:
		s.check("safety:index@"+fr.loc(x), And(CmpBV("bvsle", Const(64, 0), idx), CmpBV("bvslt", idx, b.Len)))
		return b.Arr.Select(idx)
	}
	unsup("index on %T", fr.get(x.X))
	return nil
}

func (fr *Frame) unop(x *ssa.UnOp) Value {
	s := fr.st
	v := fr.get(x.X)
	switch x.Op {
	case token.MUL:
		p, ok := v.(*PtrV)
		if !ok {
			unsup("load through %T", v)
		}
		return s.load(p, fr.loc(x))
	case token.NOT:
		return Not(asTerm(v))
	case token.SUB:
		return BVNeg(asTerm(v))
	case token.XOR:
		return BVNot(asTerm(v))
	case token.ARROW:
		return fr.recv(x, v)
	}
	unsup("unop %s", x.Op)
	return nil
}

func (s *State) binop(op token.Token, a, b Value, ta, tb types.Type, where string) Value {
	switch op {
	case token.EQL:
		return s.valEq(a, b)
	case token.NEQ:
		return Not(s.valEq(a, b))
	}
	x, ok1 := a.(*Term)
	y, ok2 := b.(*Term)
	if !ok1 || !ok2 {
		if sa, ok := a.(*StringV); ok && op == token.ADD {
			sb := b.(*StringV)
			return s.concatStrings(sa, sb)
		}
		if sa, ok := a.(*StringV); ok {
			if sb, ok := b.(*StringV); ok && sa.Lit != nil && sb.Lit != nil {
				switch op {
				case token.LSS:
					return BoolConst(*sa.Lit < *sb.Lit)
				case token.GTR:
					return BoolConst(*sa.Lit > *sb.Lit)
				}
			}
		}
		unsup("binop %s on %T,%T", op, a, b)
	}
	if isFloat(ta) {
		// floats are opaque: only uninterpreted operations
		name := fmt.Sprintf("f%d_%s", x.Sort.W, op.String())
		switch op {
		case token.LSS, token.LEQ, token.GTR, token.GEQ:
			return App("fcmp_"+name, BoolSort, x, y)
		}
		return App("fop_"+name, x.Sort, x, y)
	}
	signed := isSigned(ta)
	switch op {
	case token.ADD:
		return BinBV("bvadd", x, y)
	case token.SUB:
		return BinBV("bvsub", x, y)
	case token.MUL:
		return BinBV("bvmul", x, y)
	case token.QUO, token.REM:
		s.check("safety:divzero@"+where, Ne(y, Const(y.Sort.W, 0)))
		if signed {
			if op == token.QUO {
				return BinBV("bvsdiv", x, y)
			}
			return BinBV("bvsrem", x, y)
		}
		if op == token.QUO {
			return BinBV("bvudiv", x, y)
		}
		return BinBV("bvurem", x, y)
	case token.AND:
		if x.Sort.Kind == KBool {
			return And(x, y)
		}
		return BinBV("bvand", x, y)
	case token.OR:
		if x.Sort.Kind == KBool {
			return Or(x, y)
		}
		return BinBV("bvor", x, y)
	case token.XOR:
		return BinBV("bvxor", x, y)
	case token.AND_NOT:
		return BinBV("bvand", x, BVNot(y))
	case token.SHL, token.SHR:
		w := x.Sort.W
		// shift count: unsigned (or checked non-negative), saturate to w then resize
		if isSigned(tb) {
			s.check("safety:negshift@"+where, CmpBV("bvsle", Const(y.Sort.W, 0), y))
		}
		var cnt *Term
		if y.Sort.W == w {
			cnt = y
		} else if y.Sort.W < w {
			cnt = ZExt(w, y)
		} else {
			big := CmpBV("bvule", Const(y.Sort.W, uint64(w)), y)
			cnt = Ite(big, Const(w, uint64(w)), Extract(w-1, 0, y))
		}
		if op == token.SHL {
			return BinBV("bvshl", x, cnt)
		}
		if signed {
			return BinBV("bvashr", x, cnt)
		}
		return BinBV("bvlshr", x, cnt)
	case token.LSS, token.LEQ, token.GTR, token.GEQ:
		var o string
		sw := false
		switch op {
		case token.LSS:
			o = "lt"
		case token.LEQ:
			o = "le"
		case token.GTR:
			o, sw = "lt", true
		case token.GEQ:
			o, sw = "le", true
		}
		if sw {
			x, y = y, x
		}
		if signed {
			return CmpBV("bvs"+o, x, y)
		}
		return CmpBV("bvu"+o, x, y)
	}
	unsup("binop %s", op)
	return nil
}

func (s *State) valEq(a, b Value) *Term {
	switch x := a.(type) {
	case *Term:
		return Eq(x, asTerm(b))
	case *PtrV:
		y, ok := b.(*PtrV)
		if !ok {
			unsup("compare pointer with %T", b)
		}
		return s.ptrEq(x, y)
	case *IfaceV:
		y, ok := b.(*IfaceV)
		if !ok {
			unsup("compare interface with %T", b)
		}
		return s.ifaceEq(x, y)
	case *SliceV:
		y := b.(*SliceV)
		// only comparison with nil is legal Go
		if y.Obj == nil && y.lazy == nil {
			return BoolConst(x.Obj == nil && x.lazy == nil)
		}
		if x.Obj == nil && x.lazy == nil {
			return BoolConst(y.Obj == nil && y.lazy == nil)
		}
		unsup("slice comparison")
	case *ArrayV:
		y := b.(*ArrayV)
		if x.Arr != nil && x.N.IsConst() {
			var cs []*Term
			for i := uint64(0); i < x.N.Val; i++ {
				cs = append(cs, Eq(x.Arr.Select(Const(64, i)), y.Arr.Select(Const(64, i))))
			}
			return And(cs...)
		}
		unsup("array comparison")
	case *StructV:
		y := b.(*StructV)
		var cs []*Term
		for i := range x.Fields {
			cs = append(cs, s.valEq(x.Fields[i], y.Fields[i]))
		}
		return And(cs...)
	case *StringV:
		y := b.(*StringV)
		if x.Lit != nil && y.Lit != nil {
			return BoolConst(*x.Lit == *y.Lit)
		}
		return s.stringEq(x, y)
	case *MapV:
		y := b.(*MapV)
		if y.Obj == nil {
			return x.Nil
		}
		if x.Obj == nil {
			return y.Nil
		}
		unsup("map comparison")
	case *ChanV:
		y := b.(*ChanV)
		if y.Obj == nil {
			return x.Nil
		}
		if x.Obj == nil {
			return y.Nil
		}
		return And(Not(x.Nil), Not(y.Nil), BoolConst(x.Obj == y.Obj))
	case *FuncV:
		if y, ok := b.(*FuncV); ok {
			return BoolConst(x.Fn == y.Fn)
		}
		if y, ok := b.(*OpaqueV); ok && x.Fn == nil {
			return Eq(y.T, Const(64, 0))
		}
	case *OpaqueV:
		if y, ok := b.(*FuncV); ok && y.Fn == nil && x.Kind == "func" {
			return Eq(x.T, Const(64, 0))
		}
		if y, ok := b.(*OpaqueV); ok && x.T != nil && y.T != nil {
			return Eq(x.T, y.T)
		}
	case *ClosureV:
		if y, ok := b.(*FuncV); ok && y.Fn == nil {
			return False
		}
	}
	unsup("equality on %T / %T", a, b)
	return nil
}

func (s *State) ptrEq(x, y *PtrV) *Term {
	bothNil := And(x.Nil, y.Nil)
	if x.Nil.IsTrue() || y.Nil.IsTrue() {
		return bothNil
	}
	xo, yo := x.Obj, y.Obj
	if xo != nil && xo == yo && len(x.Path) == len(y.Path) {
		same := true
		var cs []*Term
		for i := range x.Path {
			if x.Path[i].Field != y.Path[i].Field {
				same = false
				break
			}
			if x.Path[i].Field < 0 {
				cs = append(cs, Eq(x.Path[i].Index, y.Path[i].Index))
			}
		}
		if same {
			return Or(bothNil, And(Not(x.Nil), Not(y.Nil), And(cs...)))
		}
		return bothNil
	}
	// two pointers of unknown provenance (pre-state fields, values received from peers) may be equal:
	// compare their symbolic identities.  An object allocated by the code itself differs from everything else.
	if x.Addr != nil && y.Addr != nil && len(x.Path) == 0 && len(y.Path) == 0 {
		if (xo != nil && xo.Fresh) || (yo != nil && yo.Fresh) {
			return bothNil
		}
		return Or(bothNil, And(Not(x.Nil), Not(y.Nil), Eq(x.Addr, y.Addr)))
	}
	return bothNil
}

// ptrID: a term identifying the pointer value (0 for nil), used for maps keyed by pointers.
func (s *State) ptrID(p *PtrV) *Term {
	var id *Term
	switch {
	case p.Addr != nil && (p.Obj == nil || !p.Obj.Fresh):
		id = p.Addr
	case p.object() != nil:
		id = Const(64, uint64(1<<40)+uint64(p.Obj.ID))
	default:
		id = Const(64, 0)
	}
	return Ite(p.Nil, Const(64, 0), id)
}

func (s *State) ifaceEq(x, y *IfaceV) *Term {
	if y.Type.IsConst() && y.Type.Val == 0 {
		return Eq(x.Type, Const(32, 0))
	}
	if x.Type.IsConst() && x.Type.Val == 0 {
		return Eq(y.Type, Const(32, 0))
	}
	if x == y {
		return True
	}
	// same dynamic type and same payload identity
	te := Eq(x.Type, y.Type)
	if te.IsFalse() {
		return False
	}
	if x.Type.IsConst() && y.Type.IsConst() {
		tid := int(x.Type.Val)
		if xv, ok := x.alts[tid]; ok {
			if yv, ok := y.alts[tid]; ok {
				return s.valEq(xv, yv)
			}
		}
	}
	return And(te, Eq(x.Handle, y.Handle))
}

func (s *State) convert(v Value, from, to types.Type, where string) Value {
	if so, ok := sortOf(to); ok {
		x, isT := v.(*Term)
		if !isT {
			unsup("convert %T to %s", v, to)
		}
		if isFloat(from) || isFloat(to) {
			if isFloat(from) && isFloat(to) && x.Sort.W == so.W {
				return x
			}
			return App(fmt.Sprintf("fconv_%s_%s", types.TypeString(from.Underlying(), nil), types.TypeString(to.Underlying(), nil)), so, x)
		}
		if so.Kind == KBool {
			return x
		}
		if x.Sort.W >= so.W {
			return Extract(so.W-1, 0, x)
		}
		if isSigned(from) {
			return SExt(so.W, x)
		}
		return ZExt(so.W, x)
	}
	// string <-> []byte
	if b, ok := to.Underlying().(*types.Basic); ok && b.Info()&types.IsString != 0 {
		switch x := v.(type) {
		case *SliceV:
			if o := x.object(); o != nil {
				if src, ok := s.byteStr[o.ID]; ok && x.Off.IsConst() && x.Off.Val == 0 && x.Len == src.Len {
					return src
				}
			}
			arr := s.sliceArr(x)
			return &StringV{Arr: &ArrCopy{Base: &ArrZero{W: 8}, DstOff: Const(64, 0), Src: arr, SrcOff: x.Off, N: x.Len}, Len: x.Len}
		case *StringV:
			return x
		case *Term:
			unsup("integer to string conversion")
		}
	}
	if isByteSlice(to) {
		if x, ok := v.(*StringV); ok {
			contents := &ArrayV{Arr: &ArrCopy{Base: &ArrZero{W: 8}, DstOff: Const(64, 0), Src: x.Arr, SrcOff: Const(64, 0), N: x.Len}, N: x.Len, Elem: types.Typ[types.Uint8]}
			o := s.newObj(types.NewArray(types.Typ[types.Uint8], 0), contents, "bytes(string)", true)
			if s.byteStr == nil {
				s.byteStr = map[int]*StringV{}
			}
			s.byteStr[o.ID] = x
			return &SliceV{Obj: o, Off: Const(64, 0), Len: x.Len, Cap: x.Len, Elem: types.Typ[types.Uint8]}
		}
	}
	if _, ok := to.Underlying().(*types.Pointer); ok {
		return v
	}
	unsup("conversion %s -> %s", from, to)
	return nil
}

func (fr *Frame) sliceOp(x *ssa.Slice) Value {
	s := fr.st
	var lo, hi, max *Term
	if x.Low != nil {
		lo = toIndex(fr.get(x.Low), x.Low.Type())
	}
	if x.High != nil {
		hi = toIndex(fr.get(x.High), x.High.Type())
	}
	if x.Max != nil {
		max = toIndex(fr.get(x.Max), x.Max.Type())
	}
	zero := Const(64, 0)
	switch b := fr.get(x.X).(type) {
	case *SliceV:
		if lo == nil {
			lo = zero
		}
		if hi == nil {
			hi = b.Len
		}
		capv := b.Cap
		if max != nil {
			s.check("safety:slice@"+fr.loc(x), And(CmpBV("bvsle", zero, lo), CmpBV("bvsle", lo, hi), CmpBV("bvsle", hi, max), CmpBV("bvsle", max, b.Cap)))
			capv = max
		} else {
			s.check("safety:slice@"+fr.loc(x), And(CmpBV("bvsle", zero, lo), CmpBV("bvsle", lo, hi), CmpBV("bvsle", hi, b.Cap)))
		}
		return (&SliceV{Obj: b.Obj, lazy: nil, Off: Add(b.Off, lo), Len: Sub(hi, lo), Cap: Sub(capv, lo), Elem: b.Elem}).withLazy(b)
	case *PtrV:
		at := b.Elem.Underlying().(*types.Array)
		n := Const(64, uint64(at.Len()))
		if lo == nil {
			lo = zero
		}
		if hi == nil {
			hi = n
		}
		s.check("safety:nil@"+fr.loc(x), Not(b.Nil))
		s.check("safety:slice@"+fr.loc(x), And(CmpBV("bvsle", zero, lo), CmpBV("bvsle", lo, hi), CmpBV("bvsle", hi, n)))
		o := b.object()
		if o == nil {
			panic(pathEnd{"nil dereference"})
		}
		if len(b.Path) != 0 {
			// array embedded in a struct: its contents move to a shadow object of their own (the struct keeps an
			// indirection marker), so that slices of it and accesses through the struct see the same memory
			o = s.embedArray(o, b.Path)
		}
		return &SliceV{Obj: o, Off: lo, Len: Sub(hi, lo), Cap: Sub(n, lo), Elem: at.Elem()}
	case *StringV:
		if lo == nil {
			lo = zero
		}
		if hi == nil {
			hi = b.Len
		}
		s.check("safety:slice@"+fr.loc(x), And(CmpBV("bvsle", zero, lo), CmpBV("bvsle", lo, hi), CmpBV("bvsle", hi, b.Len)))
		if b.Lit != nil && lo.IsConst() && hi.IsConst() {
			str := (*b.Lit)[lo.Val:hi.Val]
			return &StringV{Arr: &ArrBytes{B: []byte(str)}, Len: Const(64, uint64(len(str))), Lit: &str}
		}
		n := Sub(hi, lo)
		return &StringV{Arr: &ArrCopy{Base: &ArrZero{W: 8}, DstOff: zero, Src: b.Arr, SrcOff: lo, N: n}, Len: n}
	}
	unsup("slice of %T", fr.get(x.X))
	return nil
}

func (sl *SliceV) withLazy(b *SliceV) *SliceV {
	if sl.Obj == nil {
		if b.Obj != nil {
			sl.Obj = b.Obj
		} else if b.lazy != nil {
			sl.Obj = b.object()
		}
	}
	return sl
}

func (fr *Frame) typeAssert(x *ssa.TypeAssert) Value {
	s := fr.st
	iv, ok := fr.get(x.X).(*IfaceV)
	if !ok {
		unsup("type assertion on %T", fr.get(x.X))
	}
	if _, isIface := x.AssertedType.Underlying().(*types.Interface); isIface {
		// interface-to-interface
		var okT *Term
		if iv.Type.IsConst() {
			if iv.Type.Val == 0 {
				okT = False
			} else if ty := typeByID[int(iv.Type.Val)]; ty != nil {
				okT = BoolConst(types.Implements(ty, x.AssertedType.Underlying().(*types.Interface)))
			} else {
				okT = s.freshVar("implements", BoolSort)
			}
		} else {
			// unknown dynamic type: non-nil values of the static type are assumed to implement only what the static type says
			if types.Implements(x.X.Type(), x.AssertedType.Underlying().(*types.Interface)) {
				okT = Ne(iv.Type, Const(32, 0))
			} else {
				okT = And(Ne(iv.Type, Const(32, 0)), App("implements_"+shortType(x.AssertedType), BoolSort, iv.Type))
			}
		}
		if x.CommaOk {
			return &TupleV{Vals: []Value{iv, okT}}
		}
		s.check("safety:typeassert@"+fr.loc(x), okT)
		return iv
	}
	tid := typeID(x.AssertedType)
	okT := Eq(iv.Type, Const(32, uint64(tid)))
	var val Value
	if !okT.IsFalse() {
		val = iv.alt(tid)
	}
	if val == nil {
		val = s.zeroValue(x.AssertedType)
	}
	if x.CommaOk {
		if !okT.IsTrue() && !okT.IsFalse() {
			// value is zero when !ok; callers only use it under ok
		}
		return &TupleV{Vals: []Value{val, okT}}
	}
	s.check("safety:typeassert@"+fr.loc(x), okT)
	return val
}

func (iv *IfaceV) alt(tid int) Value {
	if iv.alts == nil {
		iv.alts = map[int]Value{}
	}
	if v, ok := iv.alts[tid]; ok {
		return v
	}
	if iv.mk == nil {
		return nil
	}
	v := iv.mk(tid)
	iv.alts[tid] = v
	return v
}
