package main

import (
	"fmt"
	"os"
	"go/types"
	"runtime/debug"
	"strings"

	"golang.org/x/tools/go/ssa"
)

type FuncReport struct {
	Name        string
	File        string
	Instrs      int
	Paths       int
	Completed   int
	Unsupported []string
	Unmodelled  []string
	Notes       []string
	Obligations []*Obligation
	Ends        map[string]int
}

func (e *Engine) newState(decisions []int, fnName string) *State {
	s := &State{eng: e, heap: map[int]Value{}, fresh: map[string]int{}, decisions: decisions, fnName: fnName,
		globals: map[*ssa.Global]*Obj{}, closedChans: map[int]bool{}, peekViews: map[int][]*Obj{}, foldSeen: map[int]bool{},
		mapBaseFn: map[string]func(*Term) Value{}, cutLoopAt: -1}
	return s
}

func countInstrs(fn *ssa.Function) int {
	n := 0
	for _, b := range fn.Blocks {
		n += len(b.Instrs)
	}
	return n
}

// boundedEligible: a function whose loops are terminating computation loops (each has a `decreases` clause or walks a
// range) and carry nothing per iteration (no body-ensures): when its loop contracts no longer fit the code, the
// function's own pre/postconditions can still be checked by unrolling, up to a bound.
func (fc *FuncContract) boundedEligible() bool {
	if fc == nil || len(fc.Loops) == 0 || fc.Trusted || fc.Lemma {
		return false
	}
	for _, lc := range fc.Loops {
		if len(lc.BodyEnsures) > 0 {
			return false
		}
		rng := false
		for _, b := range lc.Binds {
			if b.SSAName == "rangeindex" {
				rng = true
			}
		}
		if lc.Decreases == nil && !rng {
			return false
		}
	}
	return true
}

// verifyFuncBounded: the same function against the same contract with its loop contracts set aside: loops are
// unrolled, executions with more than k symbolic iterations of a loop are left out.  A bounded check, never a proof.
func (e *Engine) verifyFuncBounded(fn *ssa.Function, fc *FuncContract, k int) *FuncReport {
	fc2 := *fc
	fc2.Loops = map[int]*LoopContract{}
	e.boundK = k
	defer func() { e.boundK = 0 }()
	return e.verifyFunc(fn, &fc2)
}

// obligationBudget caps the obligation instances generated for one function (the unchanged tree stays far below).
const obligationBudget = 40000

// verifyFunc generates every obligation of one function under contract.
func (e *Engine) verifyFunc(fn *ssa.Function, fc *FuncContract) *FuncReport {
	name := shortFn(fn)
	rep := &FuncReport{Name: name, Instrs: countInstrs(fn), Ends: map[string]int{}}
	if pos := e.prog.Fset.Position(fn.Pos()); pos.IsValid() {
		rep.File = strings.TrimPrefix(pos.Filename, e.repo+"/")
	}
	e.root = fn
	defer func() { e.root = nil }()
	work := [][]int{{}}
	afterUnsup := 0
	unsupSeen := map[string]bool{}
	unmodSeen := map[string]bool{}
	noteSeen := map[string]bool{}
	for len(work) > 0 {
		dec := work[len(work)-1]
		work = work[:len(work)-1]
		rep.Paths++
		if os.Getenv("GOVC_DEBUG") != "" && rep.Paths%20 == 0 {
			fmt.Fprintf(os.Stderr, "[%s] paths=%d worklist=%d decisions=%v\n", name, rep.Paths, len(work), dec)
		}
		if rep.Paths > 20000 {
			rep.Unsupported = append(rep.Unsupported, "path budget exceeded")
			break
		}
		if len(rep.Obligations) > obligationBudget {
			rep.Unsupported = append(rep.Unsupported, fmt.Sprintf("verification-condition budget exceeded (%d obligation instances)", len(rep.Obligations)))
			break
		}
		if len(rep.Unsupported) > 0 {
			// the proof of this function is lost already; a few more paths are explored for the sake of a more telling
			// report (a failing postcondition with a counterexample), not all of them
			if afterUnsup++; afterUnsup > 30 {
				break
			}
		}
		s := e.newState(dec, name)
		s.unfoldCRC = fc.Options["unfold-crcfold"]
		s.mergeScalars = fc.Options["merge-scalar-branches"]
		s.ghostlog = map[string]bool{}
		s.ghostlogContract = map[string]bool{}
		for _, g := range fc.GhostLog {
			if strings.HasSuffix(g, "+contract") {
				g = strings.TrimSuffix(g, "+contract")
				s.ghostlogContract[g] = true
			}
			s.ghostlog[g] = true
		}
		func() {
			defer func() {
				if r := recover(); r != nil {
					switch x := r.(type) {
					case pathEnd:
						rep.Ends[x.why]++
					case unsupported:
						if !unsupSeen[x.msg] {
							unsupSeen[x.msg] = true
							rep.Unsupported = append(rep.Unsupported, x.msg)
						}
					default:
						msg := fmt.Sprintf("engine panic: %v\n%s", r, debug.Stack())
						if !unsupSeen[msg] {
							unsupSeen[msg] = true
							rep.Unsupported = append(rep.Unsupported, msg)
						}
					}
				}
			}()
			e.runPath(s, fn, fc, rep)
		}()
		work = append(work, s.newAlts...)
		rep.Obligations = append(rep.Obligations, s.obls...)
		for _, u := range s.unmodelled {
			if !unmodSeen[u] {
				unmodSeen[u] = true
				rep.Unmodelled = append(rep.Unmodelled, u)
			}
		}
		for _, n := range s.notes {
			if !noteSeen[n] {
				noteSeen[n] = true
				rep.Notes = append(rep.Notes, n)
			}
		}
	}
	if rep.Completed == 0 && !fc.Trusted && len(rep.Unsupported) == 0 {
		// vacuity guard: the preconditions (or a trusted model) exclude every execution
		s := e.newState(nil, name)
		o := s.oblige("cover", "cover:some-path-returns", True)
		o.Expect = "sat"
		o.Hyps = []*Term{False}
		rep.Obligations = append(rep.Obligations, o)
	}
	return rep
}

func (e *Engine) symArgs(s *State, fn *ssa.Function, fc *FuncContract) []Value {
	var args []Value
	// a closure under contract: its captured variables come first (by value: the contract speaks about what the
	// variables hold when the closure runs)
	for _, fv := range fn.FreeVars {
		args = append(args, s.symValue(fv.Type().(*types.Pointer).Elem(), fv.Name()))
	}
	nf := len(fn.FreeVars)
	for i, p := range fn.Params {
		nm := p.Name()
		if fc != nil && nf+i < len(fc.ParamNames) {
			nm = fc.ParamNames[nf+i]
		}
		args = append(args, s.symValue(p.Type(), nm))
	}
	return args
}

func (e *Engine) runPath(s *State, fn *ssa.Function, fc *FuncContract, rep *FuncReport) {
	args := e.symArgs(s, fn, fc)
	for _, c := range fc.Requires {
		s.assume(s.evalClause(c, args, nil))
	}
	s.entry = s.snapshot()
	s.entryArgs = args
	var res []Value
	if fc.Trusted {
		return
	}
	if nf := len(fn.FreeVars); nf > 0 {
		// bind each free variable to a fresh cell holding the captured value
		var cells []Value
		for i, fv := range fn.FreeVars {
			et := fv.Type().(*types.Pointer).Elem()
			o := s.newObj(et, args[i], "captured."+fv.Name(), true)
			cells = append(cells, &PtrV{Nil: False, Obj: o, Elem: et})
		}
		s.rootAllArgs = args
		res = s.run(fn, args[nf:], true, fc, cells...)
	} else {
		res = s.run(fn, args, true, fc)
	}
	rep.Completed++
	all := append(append([]Value{}, args...), res...)
	// cover: this return is reachable under the preconditions
	co := s.oblige("cover", "cover:return", False)
	co.Expect = "sat"
	for i, c := range fc.Ensures {
		g := s.evalClause(c, all, s.entry)
		s.obligeSplit("post", "post:"+clauseLabel(c, i), g)
		if s.eng.reachAntecedents && c.Ante != nil {
			// `A ==> B`: audit that A holds at some return (otherwise the clause says nothing).  Posed like a canary:
			// "not A" must be refutable.
			a := s.evalClause(c.Ante, all, s.entry)
			ro := s.oblige("reach", "reach:"+clauseLabel(c, i), Not(a))
			ro.Expect = "sat"
		}
	}
	for i, c := range fc.Canaries {
		g := s.evalClause(c, all, s.entry)
		o := s.oblige("canary", "canary:"+clauseLabel(c, i), g)
		o.Expect = "sat"
	}
	s.frameObligations(fc, args)
}

// obligeSplit splits a goal into independent obligations: conjunctions, top-level universal quantifiers (the
// bound variable becomes a free constant) and `A ==> (B1 && B2)`.  Distribution is budgeted so that it cannot
// explode; beyond the budget the goal stays one obligation.
func (s *State) obligeSplit(kind, name string, g *Term) {
	parts := splitGoal(g, 12)
	if len(parts) == 1 {
		s.oblige(kind, name, parts[0])
		return
	}
	for i, p := range parts {
		s.oblige(kind, fmt.Sprintf("%s.%d", name, i), p)
	}
}

func splitGoal(g *Term, budget int) []*Term {
	if budget <= 1 {
		return []*Term{g}
	}
	switch g.Op {
	case "and":
		var out []*Term
		for _, a := range g.Args {
			out = append(out, splitGoal(a, budget/len(g.Args)+1)...)
		}
		if len(out) > budget {
			return []*Term{g}
		}
		return out
	case "forall":
		return splitGoal(g.Args[0], budget)
	case "or":
		// A \/ forall k. B  ==  forall k. (A \/ B)   (k is fresh, not free in A)
		for i, a := range g.Args {
			if a.Op == "forall" {
				rest := append(append([]*Term{}, g.Args[:i]...), g.Args[i+1:]...)
				return splitGoal(Or(append(rest, a.Args[0])...), budget)
			}
		}
		// distribute over the LAST conjunction only (the consequent of an implication is printed last)
		for i := len(g.Args) - 1; i >= 0; i-- {
			a := g.Args[i]
			if a.Op == "and" && len(a.Args) <= budget {
				rest := append(append([]*Term{}, g.Args[:i]...), g.Args[i+1:]...)
				var out []*Term
				for _, c := range a.Args {
					out = append(out, splitGoal(Or(append(append([]*Term{}, rest...), c)...), 2)...)
				}
				if len(out) > budget {
					return []*Term{g}
				}
				return out
			}
			break
		}
	}
	return []*Term{g}
}

// frameObligations: every pre-existing object whose contents changed must be covered by a modifies clause.
func (s *State) frameObligations(fc *FuncContract, args []Value) {
	var regs []*Region
	logOK := false
	for _, m := range fc.Modifies {
		if m.When != nil {
			// the region may change only when the condition held in the pre-state
			cond := s.evalClause(m.When, args, s.entry)
			if !s.proves(cond) {
				continue
			}
		}
		for _, r := range s.evalModifies(m, args) {
			if r != nil && r.Ghost == "log" {
				logOK = true
			}
			if r != nil {
				regs = append(regs, r)
			}
		}
	}
	reflectOK := false
	for _, r := range regs {
		if r.Ghost == "reflect" {
			reflectOK = true
		}
	}
	if !logOK && len(s.log) != s.entry.logLen {
		s.oblige("frame", "frame:log", False)
	}
	for id, cur := range s.heap {
		o := s.objByID(id)
		if o == nil || o.Fresh || o.Ghost == "peekview" || o.Ghost == "streamview" || (o.Ghost == "rvcell" && reflectOK) {
			continue
		}
		old, ok := s.entry.heap[id]
		if !ok {
			old = o.Init
		}
		if old == cur {
			continue
		}
		s.frameDiff(o, nil, old, cur, regs)
	}
}

// loopFrameObligations: at the back edge of a cut loop, every object that existed at the header and whose contents
// differ from the header snapshot must be covered by a `loop k modifies` region.
func (s *State) loopFrameObligations(lrt *loopRT) {
	snap := lrt.headSnap
	if snap == nil {
		return
	}
	logOK := false
	for _, r := range lrt.regs {
		if r.Ghost == "log" {
			logOK = true
		}
	}
	_ = logOK // the events of an iteration are dropped with the iteration (cut loop): nothing to frame
	saved := s.framePrefix
	s.framePrefix = fmt.Sprintf("loop%d:", lrt.ord)
	defer func() { s.framePrefix = saved }()
	for id, cur := range s.heap {
		o := s.objByID(id)
		if o == nil || o.Ghost == "peekview" || o.Ghost == "streamview" || o.Ghost == "rvcell" {
			continue
		}
		old, ok := snap.heap[id]
		if !ok {
			if o.Fresh {
				continue // allocated by this iteration
			}
			old = o.Init // a pre-state object first touched in the body
		}
		if old == cur {
			continue
		}
		if o.Fresh && lrt.lc.ModifiesFresh {
			if _, isArr := cur.(*ArrayV); isArr {
				continue
			}
		}
		s.frameDiff(o, nil, old, cur, lrt.regs)
	}
}

func (s *State) objByID(id int) *Obj {
	return s.objIndex[id]
}

func pathCovered(regs []*Region, o *Obj, path []Sel) bool {
	for _, r := range regs {
		if r.Obj != o || r.Off != nil {
			continue
		}
		if r.Whole {
			return true
		}
		if len(r.Path) <= len(path) {
			ok := true
			for i := range r.Path {
				if r.Path[i].Field != path[i].Field || r.Path[i].Field < 0 {
					ok = false
				}
			}
			if ok {
				return true
			}
		}
	}
	return false
}

func pathString(o *Obj, path []Sel) string {
	var sb strings.Builder
	sb.WriteString(o.Name)
	t := o.Type
	for _, sel := range path {
		if sel.Field >= 0 {
			if st, ok := t.Underlying().(*types.Struct); ok {
				sb.WriteString("." + st.Field(sel.Field).Name())
				t = st.Field(sel.Field).Type()
				continue
			}
			fmt.Fprintf(&sb, ".#%d", sel.Field)
		} else {
			sb.WriteString("[i]")
			if at, ok := t.Underlying().(*types.Array); ok {
				t = at.Elem()
			}
		}
	}
	return sb.String()
}

func (s *State) frameDiff(o *Obj, path []Sel, old, cur Value, regs []*Region) {
	if old == cur {
		return
	}
	if pathCovered(regs, o, path) {
		return
	}
	name := s.framePrefix + "frame:" + pathString(o, path)
	switch c := cur.(type) {
	case *Term:
		s.oblige("frame", name, Eq(asTerm(old), c))
	case *StructV:
		ov := old.(*StructV)
		for i := range c.Fields {
			s.frameDiff(o, append(append([]Sel{}, path...), Sel{Field: i}), ov.Fields[i], c.Fields[i], regs)
		}
	case *ArrayV:
		ov := old.(*ArrayV)
		if c.Arr != nil {
			k := s.freshVar("k.frame", BV(64))
			var covered []*Term
			for _, r := range regs {
				if r.Obj == o && r.Off != nil {
					covered = append(covered, inRange(k, r.Off, r.Len))
				}
			}
			inObj := And(CmpBV("bvsle", Const(64, 0), k), CmpBV("bvslt", k, c.N))
			s.oblige("frame", name, Implies(inObj, Or(append(covered, Eq(ov.Arr.Select(k), c.Arr.Select(k)))...)))
			return
		}
		for i := range c.Vals {
			if i < len(ov.Vals) {
				s.frameDiff(o, append(append([]Sel{}, path...), Sel{Field: -1, Index: Const(64, uint64(i))}), ov.Vals[i], c.Vals[i], regs)
			}
		}
	case *OpaqueV:
		ov := old.(*OpaqueV)
		if c.Kind == "bufio.Reader" {
			s.oblige("frame", name+".pos", Eq(asTerm(ov.Aux["pos"]), asTerm(c.Aux["pos"])))
			return
		}
		if c.T != nil && ov.T != nil {
			s.oblige("frame", name, Eq(ov.T, c.T))
			return
		}
		s.oblige("frame", name, False)
	case *PtrV:
		s.oblige("frame", name, s.ptrEq(old.(*PtrV), c))
	case *IfaceV:
		s.oblige("frame", name, s.ifaceEq(old.(*IfaceV), c))
	case *SliceV:
		ov := old.(*SliceV)
		s.oblige("frame", name, And(BoolConst(ov.object() == c.object()), Eq(ov.Off, c.Off), Eq(ov.Len, c.Len), Eq(ov.Cap, c.Cap)))
	default:
		s.oblige("frame", name, False)
	}
}
