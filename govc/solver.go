package main

import (
	"bytes"
	"context"
	"crypto/sha1"
	"fmt"
	"os"
	"os/exec"
	"path/filepath"
	"strings"
	"sync"
	"sync/atomic"
	"time"
)

type SolverResult struct {
	Status  string // unsat sat unknown timeout error
	Solver  string
	Time    float64
	Output  string
	PerSolver map[string]string
}

type solverSpec struct {
	name string
	args func(file string, timeoutS int) []string
}

var solvers = []solverSpec{
	{"z3-new", func(f string, t int) []string { return []string{"z3-new", fmt.Sprintf("-T:%d", t), f} }},
	{"z3", func(f string, t int) []string { return []string{"z3", fmt.Sprintf("-T:%d", t), f} }},
	{"cvc5", func(f string, t int) []string {
		return []string{"cvc5", fmt.Sprintf("--tlimit=%d", t*1000), "--produce-models", f}
	}},
}

var qCounter int64
var scratchDir string
var scratchOnce sync.Once

func scratch() string {
	scratchOnce.Do(func() {
		d, err := os.MkdirTemp("", "govc-")
		if err != nil {
			panic(err)
		}
		scratchDir = d
	})
	return scratchDir
}

func cleanupScratch() {
	if scratchDir != "" {
		os.RemoveAll(scratchDir)
	}
}

func firstLine(s string) string {
	s = strings.TrimSpace(s)
	if i := strings.IndexByte(s, '\n'); i >= 0 {
		return strings.TrimSpace(s[:i])
	}
	return s
}

// runSolvers races the installed solvers on one query. With all=true it waits
// for every solver (thorough tier: answers must agree).
func runSolvers(query string, timeoutS int, all bool, only string) SolverResult {
	h := sha1.Sum([]byte(query))
	file := filepath.Join(scratch(), fmt.Sprintf("q-%x-%d.smt2", h[:8], atomic.AddInt64(&qCounter, 1)))
	if err := os.WriteFile(file, []byte(query), 0o644); err != nil {
		return SolverResult{Status: "error", Output: err.Error()}
	}
	defer os.Remove(file)
	ctx, cancel := context.WithCancel(context.Background())
	defer cancel()
	type one struct {
		name, status, out string
		t             float64
	}
	ch := make(chan one, len(solvers))
	n := 0
	for _, sp := range solvers {
		if only != "" && sp.name != only {
			continue
		}
		n++
		sp := sp
		go func() {
			st := time.Now()
			a := sp.args(file, timeoutS)
			c := exec.CommandContext(ctx, a[0], a[1:]...)
			var out bytes.Buffer
			c.Stdout = &out
			c.Stderr = &out
			done := make(chan error, 1)
			go func() { done <- c.Run() }()
			select {
			case <-done:
			case <-time.After(time.Duration(timeoutS+2) * time.Second):
				if c.Process != nil {
					c.Process.Kill()
				}
				<-done
			}
			o := out.String()
			fl := firstLine(o)
			status := "unknown"
			switch {
			case fl == "unsat":
				status = "unsat"
			case fl == "sat":
				status = "sat"
			case fl == "timeout" || strings.Contains(fl, "timeout") || strings.Contains(o, "interrupted"):
				status = "timeout"
			case fl == "unknown":
				status = "unknown"
			case ctx.Err() != nil:
				status = "cancelled"
			default:
				status = "error"
			}
			ch <- one{sp.name, status, o, time.Since(st).Seconds()}
		}()
	}
	res := SolverResult{Status: "unknown", PerSolver: map[string]string{}}
	var outs []string
	for i := 0; i < n; i++ {
		r := <-ch
		res.PerSolver[r.name] = r.status
		if r.status == "error" {
			outs = append(outs, r.name+": "+firstLine(r.out))
		}
		if r.status == "unsat" || r.status == "sat" {
			if res.Status == "unsat" || res.Status == "sat" {
				if res.Status != r.status {
					res.Status = "disagree"
					res.Output += "\n" + r.name + " says " + r.status
				}
				continue
			}
			res.Status, res.Solver, res.Time, res.Output = r.status, r.name, r.t, r.out
			if !all {
				cancel()
				return res
			}
		} else if res.Status != "unsat" && res.Status != "sat" {
			if r.status == "timeout" {
				res.Status = "timeout"
			}
			res.Time = r.t
		}
	}
	if res.Status != "unsat" && res.Status != "sat" && res.Status != "disagree" {
		res.Output = strings.Join(outs, "; ")
	}
	return res
}
